package main

import (
	"fmt"
	"go/ast"
	"go/constant"
	"go/token"
	"go/types"
	"sort"
	"strings"
)

// poolCall recognises nodePools[K].Get() / nodePools[K].Put(x).
func (c *Ctx) poolCall(call *ast.CallExpr) (op string, kind int64, ok bool) {
	sel, isSel := ast.Unparen(call.Fun).(*ast.SelectorExpr)
	if !isSel || (sel.Sel.Name != "Get" && sel.Sel.Name != "Put") {
		return
	}
	ix, isIx := ast.Unparen(sel.X).(*ast.IndexExpr)
	if !isIx || identVar(c.m.Info, ix.X) != c.m.PoolVar {
		return
	}
	tv, has := c.m.Info.Types[ix.Index]
	if !has || tv.Value == nil {
		return sel.Sel.Name, -1, true
	}
	k, _ := constant.Int64Val(tv.Value)
	return sel.Sel.Name, k, true
}

// releaseHelper describes a function whose whole job is to wipe a node and hand it back to its pool
// (n.clear(); pool[kind].Put(n)): node is the index of the parameter holding the node (-2 the
// receiver), kindParam the index of a parameter carrying the pool index (-1 if the helper names
// the pool itself, then kind is that constant).
type releaseHelper struct {
	node      int
	kindParam int
	kind      int64
	cleared   bool
}

func (c *Ctx) releaseHelperOf(u *FuncUnit) *releaseHelper {
	if u == nil || u.Body == nil || u.Lit != nil || len(u.Body.List) == 0 || len(u.Body.List) > 3 {
		return nil
	}
	info := c.m.Info
	for i, st := range u.Body.List {
		es, ok := st.(*ast.ExprStmt)
		if !ok {
			continue
		}
		call, ok := es.X.(*ast.CallExpr)
		if !ok {
			continue
		}
		op, kind, isPool := c.poolCall(call)
		if !isPool || op != "Put" || len(call.Args) != 1 {
			continue
		}
		id, ok := ast.Unparen(call.Args[0]).(*ast.Ident)
		if !ok {
			return nil
		}
		rh := &releaseHelper{node: c.m.paramIndex(u, id), kindParam: -1, kind: kind}
		if rh.node == -1 {
			return nil
		}
		if kind == -1 {
			// pool[kindParam]
			if sel, ok := ast.Unparen(call.Fun).(*ast.SelectorExpr); ok {
				if ix, ok := ast.Unparen(sel.X).(*ast.IndexExpr); ok {
					if kid, ok := ast.Unparen(ix.Index).(*ast.Ident); ok {
						rh.kindParam = c.m.paramIndex(u, kid)
					}
				}
			}
			if rh.kindParam < 0 {
				return nil
			}
		}
		if i > 0 {
			if pes, ok := u.Body.List[i-1].(*ast.ExprStmt); ok {
				if pc, ok := pes.X.(*ast.CallExpr); ok {
					if ps, ok := pc.Fun.(*ast.SelectorExpr); ok && ps.Sel.Name == "clear" && info.ObjectOf(identOf(ps.X)) == info.ObjectOf(id) {
						rh.cleared = true
					}
				}
			}
		}
		return rh
	}
	return nil
}

// R21 HDRCOPY, R22 CAPACITY, R23 NODEWRITERS, R24 POOL, R25 TREESTATE, R30 GLOBALS.
func ruleNodeLayer(c *Ctx) {
	info := c.m.Info
	m := c.m
	isNodeStruct := func(t types.Type) bool {
		n := namedOf(t)
		if n == nil {
			return false
		}
		return m.kindByStruct(n) != nil || n.Obj() == m.Header.Obj()
	}
	// ------------------------------------------------------------------ R21 + R24 per Put
	nPut := 0
	for _, u := range c.sortedUnits() {
		if u.Lit != nil {
			continue
		}
		// statements lists containing a Put
		var visit func(list []ast.Stmt)
		visit = func(list []ast.Stmt) {
			for i, st := range list {
				switch x := st.(type) {
				case *ast.BlockStmt:
					visit(x.List)
				case *ast.IfStmt:
					visit(x.Body.List)
					if eb, ok := x.Else.(*ast.BlockStmt); ok {
						visit(eb.List)
					} else if ei, ok := x.Else.(*ast.IfStmt); ok {
						visit([]ast.Stmt{ei})
					}
				case *ast.ForStmt:
					visit(x.Body.List)
				case *ast.ExprStmt:
					call, ok := x.X.(*ast.CallExpr)
					if !ok {
						continue
					}
					op, kind, isPool := c.poolCall(call)
					var released ast.Expr
					inHelper := c.releaseHelperOf(u) != nil // the Put of a release helper: judged at its call sites
					viaHelper := false
					helperCleared := false
					if isPool && op == "Put" && len(call.Args) == 1 {
						released = call.Args[0]
					} else if rh := c.releaseHelperOf(m.calleeUnit(call)); rh != nil {
						released = argFor(call, rh.node)
						kind = rh.kind
						if rh.kindParam >= 0 {
							kind = -1
							if ka := argFor(call, rh.kindParam); ka != nil {
								if tv, has := info.Types[ka]; has && tv.Value != nil {
									kind, _ = constant.Int64Val(tv.Value)
								}
							}
						}
						viaHelper, helperCleared = true, rh.cleared
					}
					if released == nil {
						continue
					}
					nPut++
					xv := identVar(info, released)
					props := []string{"C12", "C16", "C17"}
					base := fmt.Sprintf("%s Put(%s)", u.Name, types.ExprString(released))
					if xv == nil {
						c.r.undecided("R24", base, m.pos(call.Pos()), "released object is not a plain variable", props...)
						continue
					}
					// (b) kind ↔ type
					ki := m.kindByStruct(xv.Type())
					if inHelper && (ki == nil || kind == -1) {
						c.r.ok("R24", base+" kind matches pool", m.pos(call.Pos()), "generic release helper: the pool index is checked against the node type at each of its call sites", props...)
					} else if ki != nil && ki.Value == kind {
						c.r.ok("R24", base+" kind matches pool", m.pos(call.Pos()), ki.Name, props...)
					} else {
						c.r.bad("R24", base+" kind matches pool", m.pos(call.Pos()), fmt.Sprintf("a %s is put into pool %d", types.TypeString(xv.Type(), nil), kind), props...)
					}
					// (a) cleared immediately before
					cleared := false
					if i > 0 {
						if pes, ok := list[i-1].(*ast.ExprStmt); ok {
							if pc, ok := pes.X.(*ast.CallExpr); ok {
								if ps, ok := pc.Fun.(*ast.SelectorExpr); ok && ps.Sel.Name == "clear" && identVar(info, ps.X) == xv {
									cleared = true
								}
							}
						}
						// wipe(x): a library helper that assigns the zero value through the pointer it is given
						if pes, ok := list[i-1].(*ast.ExprStmt); ok {
							if pc, ok := pes.X.(*ast.CallExpr); ok {
								if wi, isWipe := c.wipeHelper(m.calleeUnit(pc)); isWipe {
									if a := argFor(pc, wi); a != nil && identVar(info, a) == xv {
										cleared = true
									}
								}
							}
						}
						// *x = T{}
						if as, ok := list[i-1].(*ast.AssignStmt); ok && len(as.Lhs) == 1 {
							if se, ok := ast.Unparen(as.Lhs[0]).(*ast.StarExpr); ok && identVar(info, se.X) == xv {
								if cl, ok := ast.Unparen(as.Rhs[0]).(*ast.CompositeLit); ok && len(cl.Elts) == 0 {
									cleared = true
								}
							}
						}
					}
					if viaHelper && helperCleared {
						cleared = true
					}
					if cleared {
						c.r.ok("R24", base+" cleared immediately before release", m.pos(call.Pos()), "x.clear() is the preceding statement", props...)
					} else {
						c.r.bad("R24", base+" cleared immediately before release", m.pos(call.Pos()), "a node goes back to the shared pool without being cleared in the statement before: its keys, children or compressed path leak into the next tree that picks it up", props...)
					}
					// (c) not used afterwards
					used := false
					for _, later := range list[i+1:] {
						ast.Inspect(later, func(n ast.Node) bool {
							if id, ok := n.(*ast.Ident); ok && info.ObjectOf(id) == xv {
								used = true
							}
							return true
						})
					}
					if used {
						c.r.bad("R24", base+" not used after release", m.pos(call.Pos()), "the released node is still used after Put", props...)
					} else {
						c.r.ok("R24", base+" not used after release", m.pos(call.Pos()), "no later use in the block", props...)
					}
					// (d) the slot that referenced x was overwritten earlier in this block
					relinked := false
					for _, earlier := range list[:i] {
						if as, ok := earlier.(*ast.AssignStmt); ok && len(as.Lhs) == 1 {
							if se, ok := ast.Unparen(as.Lhs[0]).(*ast.StarExpr); ok && c.isNodeRefType(info.TypeOf(se)) {
								relinked = true
							}
						}
						if c.relinkCall(earlier) {
							relinked = true
						}
					}
					if inHelper {
						c.r.ok("R24", base+" released after the slot is relinked", m.pos(call.Pos()), "release helper: the relink is required at each of its call sites", append(props, "C11")...)
					} else if relinked {
						c.r.ok("R24", base+" released after the slot is relinked", m.pos(call.Pos()), "*ref = … precedes the release", append(props, "C11")...)
					} else if why := c.detachedAtCallSites(u, xv); why != "" {
						c.r.ok("R24", base+" released after the slot is relinked", m.pos(call.Pos()), why, append(props, "C11")...)
					} else {
						c.r.bad("R24", base+" released after the slot is relinked", m.pos(call.Pos()), "the node is released while the tree's slot may still reference it", append(props, "C11")...)
					}
					// R21: if the block also takes a node from the pool, the header must be copied
					var newV *types.Var
					for _, earlier := range list[:i] {
						if as, ok := earlier.(*ast.AssignStmt); ok && len(as.Lhs) == 1 && len(as.Rhs) == 1 {
							if ta, ok := ast.Unparen(as.Rhs[0]).(*ast.TypeAssertExpr); ok {
								if gc, ok := ast.Unparen(ta.X).(*ast.CallExpr); ok {
									if op2, _, isP := c.poolCall(gc); isP && op2 == "Get" {
										newV = identVar(info, as.Lhs[0])
									}
								}
							} else if _, isCall := ast.Unparen(as.Rhs[0]).(*ast.CallExpr); isCall && isFreshExpr(m, as.Rhs[0]) && m.kindByStruct(info.TypeOf(as.Rhs[0])) != nil {
								newV = identVar(info, as.Lhs[0]) // a helper that hands out a pooled node
							}
						}
					}
					if newV != nil {
						// the conversion may be done by a helper of the old node (n16 := n4.grow()): its body is
						// then the block to look at, with its receiver/parameter in the role of the old node
						// and the variable it returns in the role of the new one
						lst, xo, nv, uu := list[:i], xv, newV, u
						for _, earlier := range list[:i] {
							as, ok := earlier.(*ast.AssignStmt)
							if !ok || len(as.Lhs) != 1 || len(as.Rhs) != 1 || identVar(info, as.Lhs[0]) != newV {
								continue
							}
							hc, ok := ast.Unparen(as.Rhs[0]).(*ast.CallExpr)
							if !ok {
								continue
							}
							cu := m.calleeUnit(hc)
							if cu == nil || cu.Lit != nil || cu.Decl == nil || cu.Body == nil {
								continue
							}
							rets, all := returnExprs(cu)
							if !all || len(rets) == 0 {
								continue
							}
							rv := identVar(info, rets[0])
							same := rv != nil
							for _, r := range rets {
								if identVar(info, r) != rv {
									same = false
								}
							}
							if !same {
								continue
							}
							// which variable of the helper is the old node?
							var ov *types.Var
							if sel, ok := ast.Unparen(hc.Fun).(*ast.SelectorExpr); ok && identVar(info, sel.X) == xv && cu.Decl.Recv != nil && len(cu.Decl.Recv.List) == 1 && len(cu.Decl.Recv.List[0].Names) == 1 {
								ov, _ = info.Defs[cu.Decl.Recv.List[0].Names[0]].(*types.Var)
							}
							k := 0
							for _, f := range cu.Decl.Type.Params.List {
								for _, nm := range f.Names {
									if k < len(hc.Args) && identVar(info, hc.Args[k]) == xv {
										ov, _ = info.Defs[nm].(*types.Var)
									}
									k++
								}
							}
							if ov != nil {
								lst, xo, nv, uu = cu.Body.List, ov, rv, cu
							}
						}
						// payload: every array field the two layouts have (children, and keys where both
						// have them) must be written in this block from the old node's field
						newSt, _ := namedOf(newV.Type()).Underlying().(*types.Struct)
						oldSt, _ := namedOf(xv.Type()).Underlying().(*types.Struct)
						for fi := 0; newSt != nil && oldSt != nil && fi < newSt.NumFields(); fi++ {
							fname := newSt.Field(fi).Name()
							if newSt.Field(fi).Embedded() {
								continue
							}
							if fname != "children" && fname != "keys" {
								continue
							}
							hasOld := false
							for fj := 0; fj < oldSt.NumFields(); fj++ {
								if oldSt.Field(fj).Name() == fname {
									hasOld = true
								}
							}
							var readsD func(e ast.Node, v *types.Var, field string, depth int) bool
							readsD = func(e ast.Node, v *types.Var, field string, depth int) bool {
								found := false
								ast.Inspect(e, func(z ast.Node) bool {
									if se, ok := z.(*ast.SelectorExpr); ok && se.Sel.Name == field && identVar(info, se.X) == v {
										found = true
									}
									// v.occupied(): a method of the node that reads the field of its receiver (an
									// iterator over the occupied slots)
									if call, ok := z.(*ast.CallExpr); ok && !found && depth < 4 {
										if sel, ok := call.Fun.(*ast.SelectorExpr); ok && identVar(info, sel.X) == v {
											if cu := m.calleeUnit(call); cu != nil && cu.Body != nil && cu.Decl != nil && cu.Decl.Recv != nil && len(cu.Decl.Recv.List) == 1 && len(cu.Decl.Recv.List[0].Names) == 1 {
												rv, _ := info.Defs[cu.Decl.Recv.List[0].Names[0]].(*types.Var)
												ast.Inspect(cu.Body, func(w ast.Node) bool {
													if se, ok := w.(*ast.SelectorExpr); ok && se.Sel.Name == field && rv != nil && identVar(info, se.X) == rv {
														found = true
													}
													return !found
												})
											}
										}
									}
									// a local bound once to an expression that reads the field
									if id, ok := z.(*ast.Ident); ok && depth < 4 && !found {
										if d := m.resolveLocal(uu, id); d != nil && readsD(d, v, field, depth+1) {
											found = true
										}
									}
									return !found
								})
								return found
							}
							reads := func(e ast.Node, v *types.Var, field string) bool { return readsD(e, v, field, 0) }
							written := false
							for _, earlier := range lst {
								ast.Inspect(earlier, func(z ast.Node) bool {
									switch y := z.(type) {
									case *ast.AssignStmt:
										for li, l := range y.Lhs {
											if reads(l, nv, fname) {
												// the right-hand side (or the loop around it) must read the old node
												src := ast.Node(earlier)
												if len(y.Rhs) == len(y.Lhs) {
													_ = li
												}
												if reads(src, xo, "children") || reads(src, xo, "keys") {
													written = true
												}
											}
										}
									case *ast.CallExpr:
										if isBuiltinCall(info, y, "copy") && len(y.Args) == 2 && reads(y.Args[0], nv, fname) && (reads(y.Args[1], xo, "children") || reads(y.Args[1], xo, "keys")) {
											written = true
										}
										// setAtPos(&new.keys, i, old.keys[i]): a library helper that writes through the
										// argument naming the new node's field, fed from the old node
										if f := m.staticCallee(y); f != nil && f.Pkg() == m.Pkg {
											w := c.e.writesThrough(f)
											for ai, a := range y.Args {
												if w[ai] && reads(a, nv, fname) && (reads(earlier, xo, "children") || reads(earlier, xo, "keys")) {
													written = true
												}
											}
										}
										// new.setChild(pos, b, old.children[i]): a method of the new node that
										// stores into the field of its receiver, fed from the old node
										if sel, ok := y.Fun.(*ast.SelectorExpr); ok && identVar(info, sel.X) == nv {
											if mu := m.calleeUnit(y); mu != nil && mu.Body != nil && mu.Decl != nil && mu.Decl.Recv != nil && len(mu.Decl.Recv.List) == 1 && len(mu.Decl.Recv.List[0].Names) == 1 {
												rv, _ := info.Defs[mu.Decl.Recv.List[0].Names[0]].(*types.Var)
												stores := false
												ast.Inspect(mu.Body, func(w ast.Node) bool {
													if as2, ok := w.(*ast.AssignStmt); ok {
														for _, l := range as2.Lhs {
															ast.Inspect(l, func(q ast.Node) bool {
																if se, ok := q.(*ast.SelectorExpr); ok && se.Sel.Name == fname && rv != nil && identVar(info, se.X) == rv {
																	stores = true
																}
																return !stores
															})
														}
													}
													return !stores
												})
												if stores && (reads(earlier, xo, "children") || reads(earlier, xo, "keys")) {
													written = true
												}
											}
										}
									}
									return true
								})
							}
							key := fmt.Sprintf("%s %s→%s carries over %s", u.Name, xv.Name(), newV.Name(), fname)
							_ = hasOld
							if written {
								c.r.ok("R21", key, m.pos(call.Pos()), newV.Name()+"."+fname+" is filled from the old node before it is released", "C11", "C01", "C10")
							} else {
								c.r.bad("R21", key, m.pos(call.Pos()), fmt.Sprintf("the node replacing %s never receives %s from it: the children (or their branch bytes) are lost when the node changes size class", xv.Name(), fname), "C11", "C01", "C10")
							}
						}
						copied := map[string]bool{}
						for _, earlier := range lst {
							as, ok := earlier.(*ast.AssignStmt)
							if !ok || len(as.Lhs) != 1 || len(as.Rhs) != 1 {
								continue
							}
							ls, ok1 := ast.Unparen(as.Lhs[0]).(*ast.SelectorExpr)
							rs, ok2 := ast.Unparen(as.Rhs[0]).(*ast.SelectorExpr)
							if !ok1 || !ok2 || identVar(info, ls.X) != nv || identVar(info, rs.X) != xo || ls.Sel.Name != rs.Sel.Name {
								continue
							}
							if ls.Sel.Name == m.Header.Obj().Name() { // n16.node = n4.node
								for _, f := range m.HeaderFld {
									copied[f] = true
								}
							}
							copied[ls.Sel.Name] = true
						}
						// a helper called in this block that copies header fields from one of its
						// operands to another (dst.inheritHeader(src))
						for _, earlier := range lst {
							es, ok := earlier.(*ast.ExprStmt)
							if !ok {
								continue
							}
							hc, ok := es.X.(*ast.CallExpr)
							if !ok {
								continue
							}
							cu := m.calleeUnit(hc)
							if cu == nil || cu.Body == nil {
								continue
							}
							rootArg := func(e ast.Expr) *types.Var {
								rv, _ := rootVar(info, e)
								if rv == nil {
									return nil
								}
								var id *ast.Ident
								ast.Inspect(e, func(z ast.Node) bool {
									if x, ok := z.(*ast.Ident); ok && id == nil && info.ObjectOf(x) == rv {
										id = x
									}
									return true
								})
								if id == nil {
									return nil
								}
								pidx := m.paramIndex(cu, id)
								if pidx == -1 {
									// n := ref.node() after *ref = nodeRef{pointer: ptr, …}: the node behind the
									// pointer parameter
									if d := m.resolveLocal(cu, id); d != nil {
										if nc, ok := ast.Unparen(d).(*ast.CallExpr); ok {
											if ns, ok := nc.Fun.(*ast.SelectorExpr); ok && ns.Sel.Name == "node" && len(nc.Args) == 0 {
												slot := identVar(info, ns.X)
												ast.Inspect(cu.Body, func(z ast.Node) bool {
													as, ok := z.(*ast.AssignStmt)
													if !ok || len(as.Lhs) != 1 || len(as.Rhs) != 1 {
														return true
													}
													st, ok := ast.Unparen(as.Lhs[0]).(*ast.StarExpr)
													if !ok || identVar(info, st.X) != slot || slot == nil {
														return true
													}
													if _, ptr, ok := c.refLitTagAny(as.Rhs[0]); ok && ptr != nil {
														if pid, ok := ast.Unparen(ptr).(*ast.Ident); ok {
															if k := m.paramIndex(cu, pid); k != -1 {
																id, pidx = pid, k
															}
														}
													}
													return true
												})
											}
										}
									}
								}
								a := argFor(hc, pidx)
								if a == nil {
									return nil
								}
								for {
									if cv, ok := ast.Unparen(a).(*ast.CallExpr); ok && isConversion(info, cv) && len(cv.Args) == 1 {
										a = cv.Args[0]
										continue
									}
									break
								}
								if ue, ok := ast.Unparen(a).(*ast.UnaryExpr); ok && ue.Op == token.AND {
									a = ue.X
								}
								av, _ := rootVar(info, a)
								return av
							}
							ast.Inspect(cu.Body, func(z ast.Node) bool {
								as, ok := z.(*ast.AssignStmt)
								if !ok || len(as.Lhs) != len(as.Rhs) {
									return true
								}
								for k := range as.Lhs {
									ls, ok1 := ast.Unparen(as.Lhs[k]).(*ast.SelectorExpr)
									rs, ok2 := ast.Unparen(as.Rhs[k]).(*ast.SelectorExpr)
									if ok1 && ok2 && ls.Sel.Name == rs.Sel.Name && rootArg(ls) == nv && rootArg(rs) == xo {
										copied[ls.Sel.Name] = true
									}
									// *dst = *src on the header struct
									if l, ok := ast.Unparen(as.Lhs[k]).(*ast.StarExpr); ok {
										if r, ok := ast.Unparen(as.Rhs[k]).(*ast.StarExpr); ok && namedOf(info.TypeOf(l)) != nil && m.Header != nil && namedOf(info.TypeOf(l)).Obj() == m.Header.Obj() && rootArg(l) == nv && rootArg(r) == xo {
											for _, f := range m.HeaderFld {
												copied[f] = true
											}
										}
									}
								}
								return true
							})
						}
						for _, f := range m.HeaderFld {
							key := fmt.Sprintf("%s %s→%s copies header field %s", u.Name, xv.Name(), newV.Name(), f)
							if copied[f] {
								c.r.ok("R21", key, m.pos(call.Pos()), newV.Name()+"."+f+" = "+xv.Name()+"."+f, "C11", "C01")
							} else {
								c.r.bad("R21", key, m.pos(call.Pos()), fmt.Sprintf("the node replacing %s does not take over header field %s: the compressed path / fan-out of the node is lost when it changes size class", xv.Name(), f), "C11", "C01")
							}
						}
					}
				}
			}
		}
		visit(u.Body.List)
		// statement lists inside function literals (deferred closures) and case clauses
		ast.Inspect(u.Body, func(n ast.Node) bool {
			switch x := n.(type) {
			case *ast.FuncLit:
				visit(x.Body.List)
			case *ast.CaseClause:
				visit(x.Body)
			}
			return true
		})
	}
	// release idiom agreement: every place that replaces a node by one of another size class
	// (a pool Get followed by the overwrite of the slot) releases the old node the same way –
	// inline (clear + Put in the same block) at all of them, or at none of them (a shared helper).
	// A mix is how a node comes to be released twice, or not at all.
	{
		type site struct {
			name   string
			pos    token.Pos
			inline bool
		}
		var sites []site
		for _, u := range c.sortedUnits() {
			if u.Lit != nil || u.Recv == "" {
				continue
			}
			if rt := m.Pkg.Scope().Lookup(u.Recv); rt == nil || m.kindByStruct(rt.Type()) == nil {
				continue
			}
			var visit func(list []ast.Stmt)
			visit = func(list []ast.Stmt) {
				hasGet, hasPut, hasRelink := false, false, false
				var pos token.Pos
				for _, st := range list {
					switch x := st.(type) {
					case *ast.IfStmt:
						visit(x.Body.List)
						if eb, ok := x.Else.(*ast.BlockStmt); ok {
							visit(eb.List)
						}
					case *ast.AssignStmt:
						if len(x.Rhs) == 1 {
							if ta, ok := ast.Unparen(x.Rhs[0]).(*ast.TypeAssertExpr); ok {
								if gc, ok := ast.Unparen(ta.X).(*ast.CallExpr); ok {
									if op, _, isP := c.poolCall(gc); isP && op == "Get" {
										hasGet, pos = true, x.Pos()
									}
								}
							}
							// n16 := n4.grow(): a helper that hands out a pooled node of another size class
							if _, isCall := ast.Unparen(x.Rhs[0]).(*ast.CallExpr); isCall && isFreshExpr(m, x.Rhs[0]) && m.kindByStruct(info.TypeOf(x.Rhs[0])) != nil {
								hasGet, pos = true, x.Pos()
							}
						}
						for _, l := range x.Lhs {
							if se, ok := ast.Unparen(l).(*ast.StarExpr); ok && c.isNodeRefType(info.TypeOf(se)) {
								hasRelink = true
							}
						}
					case *ast.ExprStmt:
						if call, ok := x.X.(*ast.CallExpr); ok {
							if op, _, isP := c.poolCall(call); isP && op == "Put" {
								hasPut = true
							}
						}
						if c.relinkCall(x) {
							hasRelink = true
						}
					}
				}
				if hasGet && hasRelink {
					sites = append(sites, site{u.Name, pos, hasPut})
				}
			}
			visit(u.Body.List)
		}
		nIn := 0
		for _, s := range sites {
			if s.inline {
				nIn++
			}
		}
		for _, s := range sites {
			key := s.name + " releases the replaced node like its siblings"
			if nIn == 0 || nIn == len(sites) {
				c.r.ok("R24", key, m.pos(s.pos), fmt.Sprintf("%d of %d replace sites release inline", nIn, len(sites)), "C12", "C16", "C11")
			} else if s.inline == (nIn*2 < len(sites)) {
				c.r.bad("R24", key, m.pos(s.pos), fmt.Sprintf("this replace site releases the old node inline=%v while %d of the %d sites do the opposite: with a shared release elsewhere the node is released twice (two trees receive the same node), without one it is never released", s.inline, max(nIn, len(sites)-nIn), len(sites)), "C12", "C16", "C11")
			} else {
				c.r.ok("R24", key, m.pos(s.pos), "agrees with the majority idiom", "C12", "C16", "C11")
			}
		}
	}
	c.r.note("R24: %d pool releases", nPut)
	// clear() resets every field
	for _, k := range m.Kinds {
		cu := m.ByName[k.Struct.Obj().Name()+".clear"]
		key := k.Struct.Obj().Name() + ".clear resets every field"
		if cu == nil {
			// no clear method: nodes of this class may be zeroed as a whole by a helper (wipe(n))
			wiped := ""
			for _, u := range c.sortedUnits() {
				if u.Body == nil {
					continue
				}
				ast.Inspect(u.Body, func(n ast.Node) bool {
					call, ok := n.(*ast.CallExpr)
					if !ok {
						return true
					}
					if wi, isWipe := c.wipeHelper(m.calleeUnit(call)); isWipe {
						if a := argFor(call, wi); a != nil {
							if pt, ok := info.TypeOf(a).Underlying().(*types.Pointer); ok && namedOf(pt.Elem()) != nil && namedOf(pt.Elem()).Obj() == k.Struct.Obj() {
								wiped = m.calleeUnit(call).Name
							}
						}
					}
					return true
				})
			}
			if wiped != "" {
				c.r.ok("R24", key, "-", "no clear method; nodes of this class are zeroed as a whole by "+wiped+" (*p = zero value)", "C12", "C16", "C11", "C01")
			} else {
				c.r.undecided("R24", key, "-", "no clear method", "C12")
			}
			continue
		}
		st := k.Struct.Underlying().(*types.Struct)
		reset := map[string]bool{}
		ast.Inspect(cu.Body, func(n ast.Node) bool {
			switch x := n.(type) {
			case *ast.CallExpr:
				if isBuiltinCall(info, x, "clear") && len(x.Args) == 1 {
					if se, ok := ast.Unparen(x.Args[0]).(*ast.SliceExpr); ok && se.Low == nil && se.High == nil {
						if sel, ok := ast.Unparen(se.X).(*ast.SelectorExpr); ok {
							reset[sel.Sel.Name] = true
						}
					}
				}
			case *ast.AssignStmt:
				if len(x.Lhs) == 1 && len(x.Rhs) == 1 {
					zero := false
					if cl, ok := ast.Unparen(x.Rhs[0]).(*ast.CompositeLit); ok && len(cl.Elts) == 0 {
						zero = true
					}
					if tv, has := info.Types[x.Rhs[0]]; has && tv.Value != nil && (tv.Value.ExactString() == "0" || tv.Value.ExactString() == "false") {
						zero = true
					}
					if !zero {
						return true
					}
					if sel, ok := ast.Unparen(x.Lhs[0]).(*ast.SelectorExpr); ok {
						reset[sel.Sel.Name] = true
					}
					if _, ok := ast.Unparen(x.Lhs[0]).(*ast.StarExpr); ok {
						for i := 0; i < st.NumFields(); i++ {
							reset[st.Field(i).Name()] = true
						}
					}
				}
			}
			return true
		})
		var missing []string
		for i := 0; i < st.NumFields(); i++ {
			if !reset[st.Field(i).Name()] {
				missing = append(missing, st.Field(i).Name())
			}
		}
		if len(missing) == 0 {
			c.r.ok("R24", key, m.pos(cu.Decl.Pos()), fmt.Sprintf("all %d fields (embedded header included)", st.NumFields()), "C12", "C16", "C11", "C01")
		} else {
			c.r.bad("R24", key, m.pos(cu.Decl.Pos()), "clear() leaves "+strings.Join(missing, ", ")+" as it was: a recycled node carries it into its next life", "C12", "C16", "C11", "C01")
		}
	}
	// pool New ↔ kind (from the model) and uses of the pool variable
	for _, k := range m.Kinds {
		c.r.ok("R24", "pool "+k.Name+" allocates "+k.Struct.Obj().Name(), "pool.go", "New returns the layout of its index", "C12")
	}
	c.r.floor("R24", 20, "pool typestate", "C12")
	c.r.floor("R21", 9, "header copies", "C11")

	// ------------------------------------------------------------------ R22 CAPACITY
	type thr struct {
		grow   int64
		shrink int64
		lower  *KindInfo
		pos    token.Pos
	}
	thrs := map[int64]*thr{}
	for i := range m.Kinds {
		k := &m.Kinds[i]
		t := &thr{grow: -1, shrink: -1}
		thrs[k.Value] = t
		if au := m.ByName[k.Struct.Obj().Name()+".addChild"]; au != nil {
			// the fill count compared with a constant, in any polarity and operand order: the node
			// accepts children in place while childrenLen < G
			stripConv := func(e ast.Expr) ast.Expr {
				for {
					e = ast.Unparen(e)
					if cv, ok := e.(*ast.CallExpr); ok && isConversion(info, cv) && len(cv.Args) == 1 {
						e = cv.Args[0]
						continue
					}
					return e
				}
			}
			ast.Inspect(au.Body, func(n ast.Node) bool {
				be, ok := n.(*ast.BinaryExpr)
				if !ok {
					return true
				}
				op := be.Op
				x, y := stripConv(be.X), stripConv(be.Y)
				if ys, isSel := y.(*ast.SelectorExpr); isSel && ys.Sel.Name == "childrenLen" {
					x, y = y, x
					op = map[token.Token]token.Token{token.LSS: token.GTR, token.GTR: token.LSS, token.LEQ: token.GEQ, token.GEQ: token.LEQ, token.EQL: token.EQL, token.NEQ: token.NEQ}[op]
				}
				sel, isSel := x.(*ast.SelectorExpr)
				tv, has := info.Types[y]
				if !isSel || sel.Sel.Name != "childrenLen" || !has || tv.Value == nil {
					return true
				}
				cst, _ := constant.Int64Val(tv.Value)
				switch op {
				case token.LSS, token.GEQ, token.EQL, token.NEQ:
					t.grow = cst
				case token.LEQ, token.GTR:
					t.grow = cst + 1 // childrenLen <= C accepts children while childrenLen < C+1
				default:
					return true
				}
				key := k.Struct.Obj().Name() + ".addChild capacity guard equals len(children)"
				if t.grow == k.Cap {
					c.r.ok("R22", key, m.pos(be.Pos()), fmt.Sprintf("children are stored in place while childrenLen < %d", t.grow), "C11", "C10")
				} else {
					c.r.bad("R22", key, m.pos(be.Pos()), fmt.Sprintf("the node accepts children while childrenLen < %d but its children array has %d slots", t.grow, k.Cap), "C11", "C10")
				}
				return true
			})
		}
		// the child is stored in place only where the fill count is known to be below the capacity
		// (the comparison above may be written either way round; what counts is which branch stores)
		if au := m.ByName[k.Struct.Obj().Name()+".addChild"]; au != nil && k.Cap < 256 && au.Decl != nil && au.Decl.Recv != nil && len(au.Decl.Recv.List) == 1 && len(au.Decl.Recv.List[0].Names) == 1 {
			recv := info.Defs[au.Decl.Recv.List[0].Names[0]]
			g := m.cfgOf(au)
			guards := guardsOf(info, g)
			stripC := func(e ast.Expr) ast.Expr {
				for {
					e = ast.Unparen(e)
					if cv, ok := e.(*ast.CallExpr); ok && isConversion(info, cv) && len(cv.Args) == 1 {
						e = cv.Args[0]
						continue
					}
					return e
				}
			}
			// belowCap: the edge establishes childrenLen < G with G <= Cap
			belowCap := func(gd guard) bool {
				be, ok := ast.Unparen(gd.atom.e).(*ast.BinaryExpr)
				if !ok {
					return false
				}
				op := be.Op
				x, y := stripC(be.X), stripC(be.Y)
				if ys, isSel := y.(*ast.SelectorExpr); isSel && ys.Sel.Name == "childrenLen" {
					x, y = y, x
					op = map[token.Token]token.Token{token.LSS: token.GTR, token.GTR: token.LSS, token.LEQ: token.GEQ, token.GEQ: token.LEQ, token.EQL: token.EQL, token.NEQ: token.NEQ}[op]
				}
				sel, isSel := x.(*ast.SelectorExpr)
				tv, has := info.Types[y]
				if !isSel || sel.Sel.Name != "childrenLen" || info.ObjectOf(identOf(sel.X)) != recv || !has || tv.Value == nil {
					return false
				}
				cst, _ := constant.Int64Val(tv.Value)
				if !gd.atom.val {
					op = map[token.Token]token.Token{token.LSS: token.GEQ, token.GEQ: token.LSS, token.GTR: token.LEQ, token.LEQ: token.GTR, token.EQL: token.NEQ, token.NEQ: token.EQL}[op]
				}
				switch op {
				case token.LSS:
					return cst <= k.Cap
				case token.LEQ:
					return cst+1 <= k.Cap
				case token.NEQ:
					return cst == k.Cap // childrenLen != Cap, with childrenLen <= Cap by construction
				}
				return false
			}
			for _, b := range g.Blocks {
				if !b.Live {
					continue
				}
				for _, n := range b.Nodes {
					as, ok := n.(*ast.AssignStmt)
					if !ok || len(as.Lhs) != 1 || len(as.Rhs) != 1 || as.Tok != token.ASSIGN {
						continue
					}
					ie, ok := ast.Unparen(as.Lhs[0]).(*ast.IndexExpr)
					if !ok {
						continue
					}
					sel, ok := ast.Unparen(ie.X).(*ast.SelectorExpr)
					if !ok || sel.Sel.Name != "children" || info.ObjectOf(identOf(sel.X)) != recv || c.isEmptyRefLit(as.Rhs[0]) {
						continue
					}
					key := k.Struct.Obj().Name() + ".addChild stores in place only below the capacity"
					okStore := false
					for _, gd := range guards {
						if belowCap(gd) && edgeDominates(g, gd.b, gd.succ, b) {
							okStore = true
						}
					}
					if okStore {
						c.r.ok("R22", key, m.pos(as.Pos()), fmt.Sprintf("dominated by childrenLen < %d", k.Cap), "C11", "C10", "C01")
					} else {
						c.r.bad("R22", key, m.pos(as.Pos()), fmt.Sprintf("a child is stored into the %d-slot array on a path that is not dominated by a test that the fill count is below %d: the branch that stores in place and the branch that grows are swapped, or the guard is missing (a node that grows on another condition than a full array enters the bigger class below that class's shrink threshold and is never shrunk again: memory follows the history)", k.Cap, k.Cap), "C11", "C10", "C01", "C17")
					}
				}
			}
		}
		if t.grow == -1 && k.Cap < 256 && m.ByName[k.Struct.Obj().Name()+".addChild"] != nil {
			c.r.undecided("R22", k.Struct.Obj().Name()+".addChild capacity guard equals len(children)", m.pos(m.ByName[k.Struct.Obj().Name()+".addChild"].Decl.Pos()), "no guard of the form childrenLen < C found before a child is stored", "C11", "C10", "C17")
		}
		if du := m.ByName[k.Struct.Obj().Name()+".deleteChild"]; du != nil {
			ast.Inspect(du.Body, func(n ast.Node) bool {
				ifs, ok := n.(*ast.IfStmt)
				if !ok {
					return true
				}
				be, ok := ast.Unparen(ifs.Cond).(*ast.BinaryExpr)
				if !ok || be.Op != token.EQL {
					return true
				}
				sel, ok := ast.Unparen(be.X).(*ast.SelectorExpr)
				if !ok || sel.Sel.Name != "childrenLen" {
					return true
				}
				tv, has := info.Types[be.Y]
				if !has || tv.Value == nil {
					return true
				}
				// does the body take a smaller node from the pool?
				ast.Inspect(ifs.Body, func(z ast.Node) bool {
					if ta, ok := z.(*ast.TypeAssertExpr); ok {
						if gc, ok := ast.Unparen(ta.X).(*ast.CallExpr); ok {
							if op, kk, isP := c.poolCall(gc); isP && op == "Get" {
								t.lower = m.kindByValue(kk)
								t.shrink, _ = constant.Int64Val(tv.Value)
								t.pos = be.Pos()
							}
						}
					}
					return true
				})
				return true
			})
		}
	}
	for _, k := range m.Kinds {
		t := thrs[k.Value]
		if t.lower == nil {
			continue
		}
		key := fmt.Sprintf("%s shrinks to %s at a fan-out that fits and leaves room", k.Struct.Obj().Name(), t.lower.Struct.Obj().Name())
		lowGrow := thrs[t.lower.Value].grow
		switch {
		case t.shrink > t.lower.Cap:
			c.r.bad("R22", key, m.pos(t.pos), fmt.Sprintf("shrinks at %d children into a node with %d slots", t.shrink, t.lower.Cap), "C11", "C10", "C01")
		case lowGrow >= 0 && t.shrink >= lowGrow:
			c.r.bad("R22", key, m.pos(t.pos), fmt.Sprintf("shrinks at %d children but the smaller node grows at %d: no hysteresis, the next insert grows it back", t.shrink, lowGrow), "C11", "C10")
		case thrs[t.lower.Value].shrink >= 0 && t.shrink <= thrs[t.lower.Value].shrink:
			// the shrink tests are equalities (childrenLen == T): a node that enters the smaller class
			// with T or fewer children steps past that class's own test and never meets it
			c.r.bad("R22", key, m.pos(t.pos), fmt.Sprintf("shrinks at %d children into a class whose own shrink test is childrenLen == %d: the node enters the class at or below that count, the equality is never met afterwards, and the node is never shrunk or collapsed again – it stays linked with zero children and pins its ancestors (memory follows the history)", t.shrink, thrs[t.lower.Value].shrink), "C11", "C10", "C17")
		default:
			c.r.ok("R22", key, m.pos(t.pos), fmt.Sprintf("threshold %d ≤ capacity %d and below its grow threshold", t.shrink, t.lower.Cap), "C11", "C10", "C01")
		}
	}
	// the compressed-path length is a length of key bytes: its field must be at least as wide as
	// the key-length fields of the leaves (a narrower counter wraps for long shared prefixes)
	if hs, ok := m.Header.Underlying().(*types.Struct); ok {
		var plen *types.Var
		for i := 0; i < hs.NumFields(); i++ {
			if strings.Contains(strings.ToLower(hs.Field(i).Name()), "prefixlen") {
				plen = hs.Field(i)
			}
		}
		maxLeaf, leafField := int64(0), ""
		for _, lt := range m.LeafTypes {
			if ls, ok := lt.Origin().Underlying().(*types.Struct); ok {
				for i := 0; i < ls.NumFields(); i++ {
					f := ls.Field(i)
					if isIntType(f.Type()) && strings.Contains(strings.ToLower(f.Name()), "len") {
						if sz := c.L.Sizes.Sizeof(f.Type()); sz > maxLeaf {
							maxLeaf, leafField = sz, lt.Origin().Obj().Name()+"."+f.Name()
						}
					}
				}
			}
		}
		key := "compressed-path length field is as wide as the leaf key-length fields"
		switch {
		case plen == nil || maxLeaf == 0:
			c.r.undecided("R22", key, "node.go", "header prefix-length field or leaf length fields not found", "C11", "C01")
		case c.L.Sizes.Sizeof(plen.Type()) >= maxLeaf:
			c.r.ok("R22", key, m.pos(plen.Pos()), fmt.Sprintf("%s is %s (%d bytes), %s is %d bytes", plen.Name(), plen.Type(), c.L.Sizes.Sizeof(plen.Type()), leafField, maxLeaf), "C11", "C01")
		default:
			c.r.bad("R22", key, m.pos(plen.Pos()), fmt.Sprintf("%s is %s (%d bytes) but keys are up to %d-byte lengths (%s): the recorded compressed-path length wraps when keys share a longer prefix, and the descent then consumes the wrong number of key bytes", plen.Name(), plen.Type(), c.L.Sizes.Sizeof(plen.Type()), maxLeaf, leafField), "C11", "C01")
		}
	}
	// the key-length field of a leaf holds the length of every key of its tree kind: keys of the
	// numeric kinds are at most 8 bytes long, the others (byte strings, sort keys, user-encoded
	// compound keys) have no bound below what a 32-bit length counts
	for _, tk := range m.Trees {
		if tk.Leaf == nil {
			continue
		}
		ls, ok := tk.Leaf.Origin().Underlying().(*types.Struct)
		if !ok {
			continue
		}
		fixed := false
		if named := namedOf(tk.CodecType); named != nil && c.numericCodec(named.Origin()) {
			fixed = true
		}
		for i := 0; i < ls.NumFields(); i++ {
			f := ls.Field(i)
			if !isIntType(f.Type()) || !strings.Contains(strings.ToLower(f.Name()), "len") {
				continue
			}
			bits := 8 * c.L.Sizes.Sizeof(f.Type())
			key := fmt.Sprintf("%s.%s can hold the length of every key of %s", tk.Leaf.Origin().Obj().Name(), f.Name(), tk.Name)
			switch {
			case fixed || bits >= 32:
				c.r.ok("R22", key, m.pos(f.Pos()), fmt.Sprintf("%d-bit length; keys of this kind are %s", bits, map[bool]string{true: "at most 8 bytes", false: "of any length"}[fixed]), "C01", "C06", "C09", "C11")
			default:
				c.r.bad("R22", key, m.pos(f.Pos()), fmt.Sprintf("the leaf records the key length in %d bits but the keys of %s have no such bound: the length of a key of %d bytes or more wraps, the stored key compares unequal to itself, and Insert of a present key splits the leaf instead of replacing the value (Size counts it twice, the old pair is lost)", bits, tk.Name, int64(1)<<uint(bits)), "C01", "C06", "C09", "C11")
			}
		}
	}
	c.r.floor("R22", 3, "capacity constants", "C11")

	// ------------------------------------------------------------------ R37 SLOTALLOC
	// a size class whose deleteChild leaves holes (slot.pointer = nil, no compaction) must not
	// allocate the next slot densely at childrenLen
	for _, k := range m.Kinds {
		du := m.ByName[k.Struct.Obj().Name()+".deleteChild"]
		au := m.ByName[k.Struct.Obj().Name()+".addChild"]
		if du == nil || au == nil {
			continue
		}
		holes, compacts := false, false
		ast.Inspect(du.Body, func(n ast.Node) bool {
			switch x := n.(type) {
			case *ast.AssignStmt:
				if len(x.Lhs) == 1 && len(x.Rhs) == 1 && info.Types[x.Rhs[0]].IsNil() {
					if sel, ok := ast.Unparen(x.Lhs[0]).(*ast.SelectorExpr); ok && sel.Sel.Name == "pointer" {
						holes = true
					}
				}
			case *ast.CallExpr:
				if isBuiltinCall(info, x, "copy") && len(x.Args) == 2 {
					if strings.Contains(types.ExprString(x.Args[0]), "children") && strings.Contains(types.ExprString(x.Args[1]), "children") {
						compacts = true
					}
				}
			}
			return true
		})
		// slot expression of the store of the new child
		var childParam *types.Var
		for _, f := range au.Decl.Type.Params.List {
			for _, nm := range f.Names {
				if v, _ := info.Defs[nm].(*types.Var); v != nil && c.isNodeRefType(v.Type()) {
					if _, isPtr := v.Type().(*types.Pointer); !isPtr {
						childParam = v
					}
				}
			}
		}
		slotKind, slotPos := "", au.Decl.Pos()
		scansFree := false
		// the store may live in a helper addChild hands the child to (insertChild(b, child))
		type slotSite struct {
			u     *FuncUnit
			child *types.Var
		}
		sites := []slotSite{{au, childParam}}
		if childParam != nil {
			ast.Inspect(au.Body, func(n ast.Node) bool {
				call, ok := n.(*ast.CallExpr)
				if !ok {
					return true
				}
				cu := m.calleeUnit(call)
				if cu == nil || cu.Lit != nil || cu.Decl == nil || cu.Body == nil || cu == au || cu.Type.Params == nil {
					return true
				}
				// a helper of the same size class: a method of the node struct, or a function that
				// is given the node
				same := cu.Recv == k.Struct.Obj().Name()
				for _, a := range call.Args {
					if nt := namedOf(info.TypeOf(a)); nt != nil && nt.Origin().Obj() == k.Struct.Obj() {
						same = true
					}
				}
				if !same {
					return true
				}
				var ps []*types.Var
				for _, f := range cu.Type.Params.List {
					for _, nm := range f.Names {
						v, _ := info.Defs[nm].(*types.Var)
						ps = append(ps, v)
					}
				}
				for i, a := range call.Args {
					if identVar(info, a) == childParam && i < len(ps) && ps[i] != nil {
						sites = append(sites, slotSite{cu, ps[i]})
					}
				}
				return true
			})
		}
		for _, site := range sites {
			au, childParam := site.u, site.child
			ast.Inspect(au.Body, func(n ast.Node) bool {
				if f, ok := n.(*ast.ForStmt); ok && f.Cond != nil {
					if strings.Contains(types.ExprString(f.Cond), ".pointer") && strings.Contains(types.ExprString(f.Cond), "children") {
						scansFree = true
					}
				}
				as, ok := n.(*ast.AssignStmt)
				if !ok || len(as.Lhs) != 1 || len(as.Rhs) != 1 || identVar(info, as.Rhs[0]) != childParam || childParam == nil {
					return true
				}
				ie, ok := ast.Unparen(as.Lhs[0]).(*ast.IndexExpr)
				if !ok || !strings.HasSuffix(types.ExprString(ie.X), "children") {
					return true
				}
				slotPos = as.Pos()
				iv := identVar(info, ie.Index)
				switch {
				case iv != nil && c.enclosingParam(au, iv):
					slotKind = "byte-indexed"
				case iv != nil:
					dense := false
					ast.Inspect(au.Body, func(z ast.Node) bool {
						if as2, ok := z.(*ast.AssignStmt); ok {
							for i, l := range as2.Lhs {
								if identVar(info, l) == iv && i < len(as2.Rhs) && strings.Contains(types.ExprString(as2.Rhs[i]), "childrenLen") {
									dense = true
								}
							}
						}
						return true
					})
					if dense {
						slotKind = "dense"
					} else {
						slotKind = "computed"
					}
				default:
					if strings.Contains(types.ExprString(ie.Index), "childrenLen") {
						slotKind = "dense"
					} else {
						slotKind = "computed"
					}
				}
				return true
			})
			// the free-slot scan starts at the first slot: a scan that starts later never reuses the
			// slots before its start, and runs off the array when only those are free
			ast.Inspect(au.Body, func(n ast.Node) bool {
				f, ok := n.(*ast.ForStmt)
				if !ok || f.Cond == nil || f.Init != nil || !strings.Contains(types.ExprString(f.Cond), ".pointer") || !strings.Contains(types.ExprString(f.Cond), "children") {
					return true
				}
				var iv *types.Var
				ast.Inspect(f.Cond, func(z ast.Node) bool {
					if ie, ok := z.(*ast.IndexExpr); ok && strings.HasSuffix(types.ExprString(ie.X), "children") {
						iv = identVar(info, ie.Index)
					}
					return true
				})
				if iv == nil {
					return true
				}
				def := singleDefBefore(info, au.Body, iv, f.Pos())
				if def == nil {
					return true
				}
				d := ast.Unparen(def)
				for {
					cv, ok := d.(*ast.CallExpr)
					if !ok || !isConversion(info, cv) || len(cv.Args) != 1 {
						break
					}
					d = ast.Unparen(cv.Args[0])
				}
				tv, isConst := info.Types[d]
				if !isConst || tv.Value == nil {
					return true
				}
				k2 := k.Struct.Obj().Name() + " free-slot scan starts at the first slot"
				if tv.Value.ExactString() == "0" {
					c.r.ok("R37", k2, m.pos(f.Pos()), iv.Name()+" starts at 0", "C10", "C01", "C11")
				} else {
					c.r.bad("R37", k2, m.pos(def.Pos()), fmt.Sprintf("the scan for a free child slot starts at slot %s: the slots before it are never reused, and when they are the only free ones the scan runs off the children array (index out of range on an insert after deletes)", tv.Value.ExactString()), "C10", "C01", "C11")
				}
				return true
			})
		}
		key := k.Struct.Obj().Name() + " slot allocation agrees with how deleteChild vacates slots"
		switch {
		case slotKind == "":
			c.r.undecided("R37", key, m.pos(au.Decl.Pos()), "store of the new child not recognised", "C10", "C01", "C02", "C11")
		case holes && !compacts && slotKind == "dense" && !scansFree:
			c.r.bad("R37", key, m.pos(slotPos), "deleteChild frees a slot in place (pointer = nil, no compaction) but addChild takes slot childrenLen as the next free one: after a delete of a child that is not in the last slot that slot is still occupied and the new child overwrites a live one", "C10", "C01", "C02", "C11")
		case holes && !compacts && slotKind == "dense" && scansFree:
			c.r.ok("R37", key, m.pos(slotPos), "holes are left by deleteChild and addChild scans for a free slot", "C10", "C01", "C02", "C11")
		case holes && !compacts:
			c.r.ok("R37", key, m.pos(slotPos), "holes are left by deleteChild; addChild picks the slot by "+slotKind+" index (free-slot scan="+fmt.Sprint(scansFree)+")", "C10", "C01", "C02", "C11")
		default:
			c.r.ok("R37", key, m.pos(slotPos), "deleteChild compacts the arrays, so the occupied slots are dense and slot childrenLen is free", "C10", "C01", "C02", "C11")
		}
	}

	// ------------------------------------------------------------------ R23 NODEWRITERS + R25 TREESTATE
	treeStruct := map[*types.TypeName]*TreeKind{}
	for _, tk := range m.Trees {
		treeStruct[tk.Named.Obj()] = tk
	}
	nW := 0
	writtenLater := map[string]bool{} // tree.field written (or its address taken) outside constructors and options
	for _, u := range c.sortedUnits() {
		base := u.Name
		if i := strings.IndexByte(base, '$'); i >= 0 {
			base = base[:i]
		}
		if u.Recv != "" {
			ast.Inspect(u.Body, func(n ast.Node) bool {
				if ue, ok := n.(*ast.UnaryExpr); ok && ue.Op == token.AND {
					if sel, ok := ast.Unparen(ue.X).(*ast.SelectorExpr); ok && info.Selections[sel] != nil {
						if nt := namedOf(info.TypeOf(sel.X)); nt != nil {
							if tk, isTree := treeStruct[nt.Obj()]; isTree {
								writtenLater[tk.Name+"."+sel.Sel.Name] = true
							}
						}
					}
				}
				return true
			})
		}
		ownerOK := func() bool {
			if u.Recv != "" {
				if rt := m.Pkg.Scope().Lookup(u.Recv); rt != nil && (isNodeStruct(rt.Type()) || c.isNodeRefType(rt.Type())) {
					return true
				}
			}
			if strings.HasSuffix(base, ".Insert") {
				return true
			}
			// a helper that only Insert reaches (Insert split into Insert + insert, the split of a
			// leaf or of a compressed path moved into a function of its own) is part of Insert
			bu := m.ByName[base]
			if bu == nil {
				return false
			}
			reachedByInsert, reachedByOther := false, false
			for _, tk := range m.Trees {
				for name, mu := range tk.Methods {
					if mu.Decl == nil || !mu.Decl.Name.IsExported() {
						continue
					}
					if c.reachableFrom([]*FuncUnit{mu})[bu] {
						if name == "Insert" {
							reachedByInsert = true
						} else {
							reachedByOther = true
						}
					}
				}
			}
			return reachedByInsert && !reachedByOther
		}
		var stores []ast.Expr
		ast.Inspect(u.Body, func(n ast.Node) bool {
			if lit, ok := n.(*ast.FuncLit); ok && ast.Node(lit) != ast.Node(u.Lit) {
				return false
			}
			switch x := n.(type) {
			case *ast.AssignStmt:
				if x.Tok != token.DEFINE {
					stores = append(stores, x.Lhs...)
				}
			case *ast.IncDecStmt:
				stores = append(stores, x.X)
			case *ast.CallExpr:
				if (isBuiltinCall(info, x, "copy") || isBuiltinCall(info, x, "clear")) && len(x.Args) > 0 {
					stores = append(stores, x.Args[0])
				}
			}
			return true
		})
		for _, lhs := range stores {
			// walk the selector chain for a field of a node struct / tree struct
			e := ast.Unparen(lhs)
			for {
				switch y := e.(type) {
				case *ast.SliceExpr:
					e = ast.Unparen(y.X)
					continue
				case *ast.IndexExpr:
					e = ast.Unparen(y.X)
					continue
				case *ast.StarExpr:
					e = nil
				case *ast.SelectorExpr:
					if info.Selections[y] != nil {
						ot := info.TypeOf(y.X)
						if isNodeStruct(ot) {
							nW++
							key := fmt.Sprintf("%s writes node field %s", u.Name, y.Sel.Name)
							if ownerOK() {
								c.r.ok("R23", key, m.pos(lhs.Pos()), "node layer or Insert split path", "C11", "C15")
							} else {
								c.r.bad("R23", key, m.pos(lhs.Pos()), "a node field is written outside the node layer (node.go methods) and the Insert split paths", "C11", "C15")
							}
							e = nil
							continue
						}
						if n := namedOf(ot); n != nil {
							if tk, isTree := treeStruct[n.Obj()]; isTree {
								key := fmt.Sprintf("%s writes tree field %s.%s", u.Name, tk.Name, y.Sel.Name)
								okField := y.Sel.Name == "root" || y.Sel.Name == c.sizeField(tk)
								isOpt := u.Recv == "" // constructors / options
								if !isOpt {
									writtenLater[tk.Name+"."+y.Sel.Name] = true
								}
								switch {
								case okField && (strings.HasSuffix(base, ".Insert") || strings.HasSuffix(base, ".Delete")):
									c.r.ok("R25", key, m.pos(lhs.Pos()), "tree state is {root, size}, written by Insert/Delete", "C12", "C15")
								case isOpt:
									c.r.ok("R25", key, m.pos(lhs.Pos()), "construction-time option", "C12")
								case okField && !c.reachOf("C15")[u]:
									c.r.ok("R25", key, m.pos(lhs.Pos()), "tree state written by a mutator that no query reaches (helper of Insert/Delete or an additional mutating method)", "C12", "C15")
								default:
									c.r.bad("R25", key, m.pos(lhs.Pos()), "a tree keeps state other than {root, size}, or writes it outside Insert/Delete: an emptied tree no longer equals a new one / a query changes the tree", "C12", "C15", "C16")
								}
								e = nil
								continue
							}
						}
						e = ast.Unparen(y.X)
						continue
					}
					e = nil
				default:
					e = nil
				}
				if e == nil {
					break
				}
			}
		}
	}
	c.r.note("R23: %d stores to node fields", nW)
	c.r.floor("R23", 40, "node field stores", "C11")
	// tree structs have exactly the fields {root, codec, size}
	for _, tk := range m.Trees {
		st := tk.Named.Underlying().(*types.Struct)
		var extra, config []string
		for i := 0; i < st.NumFields(); i++ {
			f := st.Field(i).Name()
			if f != "root" && f != c.sizeField(tk) && f != tk.CodecField {
				// a field that only constructors and options write is configuration, not state
				if !writtenLater[tk.Name+"."+f] {
					config = append(config, f)
					continue
				}
				extra = append(extra, f)
			}
		}
		key := tk.Name + " state is {root, size, codec}"
		if len(extra) == 0 && len(config) > 0 {
			sort.Strings(config)
			c.r.ok("R25", key, tk.File, "further fields "+strings.Join(config, ", ")+": written by constructors and options only (configuration, fixed for the life of the tree)", "C12", "C15", "C16")
		} else if len(extra) == 0 {
			c.r.ok("R25", key, tk.File, "no further fields", "C12", "C15", "C16")
		} else {
			sort.Strings(extra)
			c.r.bad("R25", key, tk.File, "extra per-tree state: "+strings.Join(extra, ", ")+" (a cache or free list that queries may write, that an emptied tree keeps, or that goroutines share)", "C12", "C15", "C16")
		}
	}
	c.r.floor("R25", 6+12, "tree state", "C12")

	// ------------------------------------------------------------------ R30 GLOBALS
	scope := m.Pkg.Scope()
	for _, name := range scope.Names() {
		v, ok := scope.Lookup(name).(*types.Var)
		if !ok {
			continue
		}
		if c.L.fileOf(v.Pos()) == overlayName {
			continue
		}
		key := "package variable " + name
		props := []string{"C16", "C12"}
		if v == m.PoolVar && !strings.Contains(v.Type().String(), "sync.Pool") {
			c.r.bad("R30", key, m.pos(v.Pos()), "the node pool shared by all trees is a "+types.TypeString(v.Type(), nil)+", not a sync.Pool: it is neither synchronised by the runtime's contract (trees used from different goroutines) nor emptied by the garbage collector (released nodes stay reachable from a package-level variable, so memory follows the history, not the content)", append(props, "C17")...)
			continue
		}
		if strings.Contains(v.Type().String(), "sync.Pool") {
			// every use must be pool[K].Get() / pool[K].Put(x)
			badUse := ""
			for _, u := range m.Units {
				if u.Lit != nil {
					continue
				}
				var stack []ast.Node
				ast.Inspect(u.Body, func(n ast.Node) bool {
					if n == nil {
						stack = stack[:len(stack)-1]
						return true
					}
					stack = append(stack, n)
					if id, ok := n.(*ast.Ident); ok && info.ObjectOf(id) == v {
						// parent chain: Ident ← IndexExpr ← SelectorExpr(Get/Put) ← CallExpr
						okUse := false
						if len(stack) >= 4 {
							if _, ok := stack[len(stack)-2].(*ast.IndexExpr); ok {
								if se, ok := stack[len(stack)-3].(*ast.SelectorExpr); ok && (se.Sel.Name == "Get" || se.Sel.Name == "Put") {
									if _, ok := stack[len(stack)-4].(*ast.CallExpr); ok {
										okUse = true
									}
								}
							}
						}
						// a pool that is not a table: Ident ← SelectorExpr(Get/Put) ← CallExpr
						if len(stack) >= 3 && !okUse {
							if se, ok := stack[len(stack)-2].(*ast.SelectorExpr); ok && (se.Sel.Name == "Get" || se.Sel.Name == "Put") && se.X == ast.Expr(id) {
								if _, ok := stack[len(stack)-3].(*ast.CallExpr); ok {
									okUse = true
								}
							}
						}
						if !okUse {
							badUse = m.pos(id.Pos())
						}
					}
					return true
				})
			}
			if badUse == "" {
				c.r.ok("R30", key, m.pos(v.Pos()), "sync.Pool, used only through Get/Put", props...)
			} else {
				c.r.bad("R30", key, badUse, "the shared pool is used other than through Get/Put (copied, indexed into a variable, reassigned)", props...)
			}
			continue
		}
		// any store or address-of anywhere?
		written := ""
		for _, u := range m.Units {
			if u.Lit != nil {
				continue
			}
			ast.Inspect(u.Body, func(n ast.Node) bool {
				check := func(e ast.Expr) {
					if rv, _ := rootVar(info, e); rv == v {
						written = m.pos(e.Pos())
					}
				}
				switch x := n.(type) {
				case *ast.AssignStmt:
					for _, l := range x.Lhs {
						check(l)
					}
				case *ast.IncDecStmt:
					check(x.X)
				case *ast.UnaryExpr:
					if x.Op == token.AND {
						check(x.X)
					}
				case *ast.CallExpr:
					if (isBuiltinCall(info, x, "copy") || isBuiltinCall(info, x, "clear") || isBuiltinCall(info, x, "append")) && len(x.Args) > 0 {
						check(x.Args[0])
					}
					// method with pointer receiver on the variable
					if sel, ok := ast.Unparen(x.Fun).(*ast.SelectorExpr); ok {
						if s := info.Selections[sel]; s != nil && s.Kind() == types.MethodVal {
							if sig, ok := s.Obj().Type().(*types.Signature); ok && sig.Recv() != nil {
								if _, isPtr := sig.Recv().Type().(*types.Pointer); isPtr {
									check(sel.X)
								}
							}
						}
					}
				}
				return true
			})
		}
		mutableType := true
		switch t := v.Type().Underlying().(type) {
		case *types.Basic:
			_ = t
		}
		_ = mutableType
		if written == "" {
			c.r.ok("R30", key, m.pos(v.Pos()), "never stored to, appended to or address-taken in any function", props...)
		} else if m.ReadOnlyTables[v] {
			c.r.ok("R30", key, m.pos(v.Pos()), "a table that is only read: its address is taken only to define local pointers to one element, through which nothing is stored and which are handed to no call (tableconst.go)", props...)
		} else {
			c.r.bad("R30", key, written, "package-level mutable state shared by all trees without synchronisation", props...)
		}
	}
	c.r.floor("R30", 1, "package variables", "C16")
}

// detachedAtCallSites: u releases the nodes of a whole subtree it receives BY VALUE (a nodeRef
// parameter, no slot pointer): the slot that referenced the subtree must have been overwritten
// by the caller. Every call site passes a local copy of a slot and assigns that slot between the
// copy and the call. Returns the justification, or "".
func (c *Ctx) detachedAtCallSites(u *FuncUnit, xv *types.Var) string {
	m := c.m
	info := m.Info
	if u.Decl == nil || u.Lit != nil || u.Recv != "" || u.Decl.Type.Params == nil {
		return ""
	}
	pi, k := -1, 0
	for _, f := range u.Decl.Type.Params.List {
		t := info.TypeOf(f.Type)
		for range f.Names {
			if _, isPtr := t.(*types.Pointer); isPtr && c.isNodeRefType(t.(*types.Pointer).Elem()) {
				return "" // it has the slot: it must relink itself
			}
			if c.isNodeRefType(t) {
				if pi >= 0 {
					return ""
				}
				pi = k
			}
			k++
		}
	}
	if pi < 0 {
		return ""
	}
	// the released object is a typed view of X.pointer, X a local reference (popped from the
	// worklist that the parameter seeds)
	def := singleDef(info, u.Body, xv)
	if def == nil {
		return ""
	}
	e := ast.Unparen(def)
	for {
		call, ok := e.(*ast.CallExpr)
		if !ok || !isConversion(info, call) || len(call.Args) != 1 {
			break
		}
		e = ast.Unparen(call.Args[0])
	}
	sel, ok := e.(*ast.SelectorExpr)
	if !ok || !c.isNodeRefType(info.TypeOf(sel.X)) {
		return ""
	}
	if xid, ok := ast.Unparen(sel.X).(*ast.Ident); !ok || identVar(info, xid) == nil {
		return ""
	}
	sites := c.callSitesOf(u)
	if len(sites) == 0 {
		return ""
	}
	for _, s := range sites {
		a := argFor(s.call, pi)
		v := identVar(info, a)
		if v == nil || v.IsField() {
			return ""
		}
		slot := singleDef(info, s.u.Body, v)
		if slot == nil {
			return ""
		}
		slotText := exprText(ast.Unparen(slot))
		if _, isSel := ast.Unparen(slot).(*ast.SelectorExpr); !isSel {
			if _, isStar := ast.Unparen(slot).(*ast.StarExpr); !isStar {
				return ""
			}
		}
		// the block that holds the call: an assignment to the slot precedes the call in it, after
		// the copy was taken
		detached := false
		ast.Inspect(s.u.Body, func(n ast.Node) bool {
			bs, ok := n.(*ast.BlockStmt)
			if !ok {
				return true
			}
			ci := -1
			for i, st := range bs.List {
				if es, ok := st.(*ast.ExprStmt); ok && es.X == ast.Expr(s.call) {
					ci = i
				}
			}
			if ci < 0 {
				return true
			}
			for _, st := range bs.List[:ci] {
				if as, ok := st.(*ast.AssignStmt); ok && as.Tok == token.ASSIGN && as.Pos() > v.Pos() {
					for _, l := range as.Lhs {
						if exprText(ast.Unparen(l)) == slotText {
							detached = true
						}
					}
				}
			}
			return true
		})
		if !detached {
			return ""
		}
	}
	return fmt.Sprintf("%s receives the subtree by value: at each of its %d call sites the argument is a copy of a slot that is overwritten before the call (the subtree is detached first)", u.Name, len(sites))
}

// wipeHelper: u assigns the zero value of the pointee through one of its pointer parameters
// (`*p = T{}`, or `var zero T; *p = zero`) and does nothing else with it. Returns the index of
// that parameter (-2 for the receiver).
func (c *Ctx) wipeHelper(u *FuncUnit) (int, bool) {
	if u == nil || u.Lit != nil || u.Decl == nil || u.Body == nil || len(u.Body.List) > 3 {
		return 0, false
	}
	info := c.m.Info
	idx, found := 0, false
	ast.Inspect(u.Body, func(n ast.Node) bool {
		as, ok := n.(*ast.AssignStmt)
		if !ok || len(as.Lhs) != 1 || len(as.Rhs) != 1 || as.Tok != token.ASSIGN {
			return true
		}
		se, ok := ast.Unparen(as.Lhs[0]).(*ast.StarExpr)
		if !ok {
			return true
		}
		id, ok := ast.Unparen(se.X).(*ast.Ident)
		if !ok {
			return true
		}
		pi := c.m.paramIndex(u, id)
		if pi == -1 {
			return true
		}
		zero := false
		if cl, ok := ast.Unparen(as.Rhs[0]).(*ast.CompositeLit); ok && len(cl.Elts) == 0 {
			zero = true
		}
		if zv := identVar(info, as.Rhs[0]); zv != nil && !zv.IsField() {
			// var zero T (no initialiser, never assigned)
			if len(assignedExprs(info, u.Body, zv)) == 0 && !assignedAnywhere(info, u.Body, zv) && zv.Pos() > u.Body.Pos() {
				zero = true
			}
		}
		if zero {
			idx, found = pi, true
		}
		return true
	})
	return idx, found
}

// singleDefBefore: the right-hand side of the last definition/assignment of v that precedes pos
// in body (nil if there is none).
func singleDefBefore(info *types.Info, body ast.Node, v *types.Var, pos token.Pos) ast.Expr {
	var out ast.Expr
	ast.Inspect(body, func(n ast.Node) bool {
		as, ok := n.(*ast.AssignStmt)
		if !ok || as.Pos() >= pos || len(as.Lhs) != len(as.Rhs) {
			return true
		}
		for i, l := range as.Lhs {
			if identVar(info, l) == v {
				out = as.Rhs[i]
			}
		}
		return true
	})
	return out
}

// relinkCall: the statement calls a function of the package that publishes a new reference
// through the slot it is given (ref.replace(kind, ptr, old): *ref = nodeRef{pointer: ptr, tag: kind}
// in its body, ref its receiver or a *nodeRef parameter).
func (c *Ctx) relinkCall(st ast.Stmt) bool {
	info := c.m.Info
	es, ok := st.(*ast.ExprStmt)
	if !ok {
		return false
	}
	call, ok := es.X.(*ast.CallExpr)
	if !ok {
		return false
	}
	cu := c.m.calleeUnit(call)
	if cu == nil || cu.Lit != nil || cu.Body == nil || cu.Decl == nil {
		return false
	}
	found := false
	ast.Inspect(cu.Body, func(n ast.Node) bool {
		as, ok := n.(*ast.AssignStmt)
		if !ok || len(as.Lhs) != 1 || len(as.Rhs) != 1 {
			return true
		}
		se, ok := ast.Unparen(as.Lhs[0]).(*ast.StarExpr)
		if !ok || !c.isNodeRefType(info.TypeOf(se)) {
			return true
		}
		id, ok := ast.Unparen(se.X).(*ast.Ident)
		if !ok {
			return true
		}
		if _, _, isLit := c.refLitTagAny(as.Rhs[0]); !isLit {
			return true
		}
		// receiver or parameter of the helper
		if pi := c.m.paramIndex(cu, id); pi != -1 {
			found = true
		}
		return true
	})
	return found
}
