package main

import (
	"fmt"
	"go/ast"
	"go/token"
	"go/types"
	"strings"

	"golang.org/x/tools/go/cfg"
)

// byteKeyKinds: tree kinds whose key type set contains []byte (C13's scope).
func (c *Ctx) byteKeyKinds() []*TreeKind {
	var out []*TreeKind
	for _, tk := range c.m.Trees {
		if tk.Named.TypeParams().Len() == 0 {
			continue
		}
		for _, t := range typeSetTerms(tk.Named.TypeParams().At(0)) {
			if sl, ok := t.Underlying().(*types.Slice); ok {
				if b, ok := sl.Elem().Underlying().(*types.Basic); ok && (b.Kind() == types.Byte || b.Kind() == types.Uint8) {
					out = append(out, tk)
					break
				}
			}
		}
	}
	return out
}

func typeSetTerms(tp *types.TypeParam) []types.Type {
	var out []types.Type
	var walk func(t types.Type)
	walk = func(t types.Type) {
		switch x := t.(type) {
		case *types.Named:
			if _, isIface := x.Underlying().(*types.Interface); isIface {
				walk(x.Underlying())
			} else {
				out = append(out, x)
			}
		case *types.Alias:
			walk(types.Unalias(x))
		case *types.Interface:
			for i := 0; i < x.NumEmbeddeds(); i++ {
				walk(x.EmbeddedType(i))
			}
		case *types.Union:
			for i := 0; i < x.Len(); i++ {
				walk(x.Term(i).Type())
			}
		default:
			out = append(out, t)
		}
	}
	walk(tp.Constraint())
	return out
}

// R26 NOALIAS (C13) – no write through, and no retention of, a slice that may alias a key
// argument. Decided with must-facts "fresh(v)": v refers to memory the library allocated.
func ruleR26(c *Ctx) {
	info := c.m.Info
	m := c.m
	probe := c.e.probeKeys()
	_ = "C13"
	// units reachable from the key-taking methods of the byte-keyed kinds
	var roots []*FuncUnit
	for _, tk := range c.byteKeyKinds() {
		for _, mn := range []string{"Insert", "Search", "Delete", "Prefix", "Range"} {
			if u := tk.Methods[mn]; u != nil {
				roots = append(roots, u)
			}
		}
	}
	reach := c.reachableFrom(roots)
	isByteSlice := func(t types.Type) bool {
		if t == nil {
			return false
		}
		if tp, isTP := types.Unalias(t).(*types.TypeParam); isTP {
			// a key type parameter can be a byte slice only if its type set has one
			for _, term := range typeSetTerms(tp) {
				if sl, ok := term.Underlying().(*types.Slice); ok {
					if b, ok := sl.Elem().Underlying().(*types.Basic); ok && (b.Kind() == types.Byte || b.Kind() == types.Uint8) {
						return true
					}
				}
			}
			return false
		}
		sl, ok := t.Underlying().(*types.Slice)
		if !ok {
			return false
		}
		b, ok := sl.Elem().Underlying().(*types.Basic)
		return ok && (b.Kind() == types.Byte || b.Kind() == types.Uint8)
	}
	suspect := func(e ast.Expr) *types.Var {
		// the slice variable at the root of e, if it may alias a key argument
		x := ast.Unparen(e)
		for {
			if se, ok := x.(*ast.SliceExpr); ok {
				x = ast.Unparen(se.X)
				continue
			}
			if call, ok := x.(*ast.CallExpr); ok && isConversion(info, call) && len(call.Args) == 1 {
				at := info.TypeOf(call.Args[0])
				if b, ok := at.Underlying().(*types.Basic); ok && b.Info()&types.IsString != 0 {
					return nil
				}
				x = ast.Unparen(call.Args[0])
				continue
			}
			break
		}
		v := identVar(info, x)
		if v == nil || !probe[v] || !isByteSlice(v.Type()) {
			return nil
		}
		return v
	}
	// entry points: the exported methods of the trees (what the caller of the library calls with
	// its own slices); unexported methods are helpers whose arguments come from the library
	isTreeMethod := func(u *FuncUnit) bool {
		for _, tk := range m.Trees {
			for _, mu := range tk.Methods {
				if mu == u {
					return u.Decl != nil && u.Decl.Name.IsExported()
				}
			}
		}
		return false
	}
	paramIndex := func(u *FuncUnit, v *types.Var) int {
		if u.Decl == nil || u.Lit != nil {
			return -1
		}
		i := 0
		for _, f := range u.Decl.Type.Params.List {
			for _, nm := range f.Names {
				if info.Defs[nm] == v {
					return i
				}
				i++
			}
		}
		return -1
	}
	// paramFreshAtCalls: every call of helper u in a byte-keyed tree passes, for parameter pi, a
	// slice the library allocated itself
	var allUnits []*FuncUnit
	paramFreshAtCalls := func(u *FuncUnit, pi int) (okAll bool, nCalls int, badAt string) {
		okAll = true
		for _, cu := range allUnits {
			cfl := c.e.flow(cu)
			cfl.walk(func(cn ast.Node, cfs *FactSet, _ ast.Node, _ *cfg.Block) {
				call, ok := cn.(*ast.CallExpr)
				if !ok || pi >= len(call.Args) {
					return
				}
				if f := m.staticCallee(call); f == nil || f != u.Obj {
					return
				}
				// only call sites inside the byte-keyed kinds matter
				isByteKind := false
				for _, tk := range c.byteKeyKinds() {
					if cu.Recv == tk.Name {
						isByteKind = true
					}
				}
				if !isByteKind {
					return
				}
				nCalls++
				if !cfl.freshExpr(call.Args[pi], cfs, 0) {
					okAll = false
					badAt = cu.Name + " at " + m.pos(call.Pos())
				}
			})
		}
		return
	}
	nW, nR := 0, 0
	// captured variables used at sinks inside local closures: checked at the closure's call sites
	type deferred struct {
		v    *types.Var
		how  string
		node ast.Node
	}
	closureSinks := map[*FuncUnit][]deferred{}
	var units []*FuncUnit
	for _, u := range c.sortedUnits() {
		if reach[u] {
			units = append(units, u)
		}
	}
	allUnits = units
	// keeps: helpers that keep a reference to the bytes of a parameter (spanOf(b) returning a
	// struct with b's data pointer, newLeaf(key, …)): a call of one is itself a sink of its
	// argument. Filled by a first, silent pass over the units.
	keeps := map[*types.Func]map[int]bool{}
	inByteKind := func(u *FuncUnit) bool {
		for x := u; x != nil; x = x.Parent {
			for _, tk := range c.byteKeyKinds() {
				if x.Recv == tk.Name {
					return true
				}
			}
			if x.Parent == nil && x.Recv == "" {
				return true // a plain function: its own parameters are judged at its call sites
			}
		}
		return false
	}
	for pass := 0; pass < 2; pass++ {
		silent := pass == 0
		if !silent {
			nW, nR = 0, 0
			closureSinks = map[*FuncUnit][]deferred{}
		}
		for _, u := range units {
			fl := c.e.flow(u)
			props := []string{"C13"}
			if strings.Contains(strings.ToLower(u.Name), "collat") {
				props = append(props, "C08") // keys are returned exactly as inserted
			}
			capturedFromOutside := func(v *types.Var) bool {
				return u.Lit != nil && !(v.Pos() >= u.Lit.Pos() && v.Pos() <= u.Lit.End())
			}
			sink := func(kind string, v *types.Var, how string, node ast.Node, fs *FactSet) {
				key := fmt.Sprintf("%s %s %s", u.Name, how, v.Name())
				if silent {
					if pi := paramIndex(u, v); kind == "R" && pi >= 0 && u.Obj != nil && !isTreeMethod(u) && !assignedAnywhere(info, u.Body, v) {
						if keeps[u.Obj] == nil {
							keeps[u.Obj] = map[int]bool{}
						}
						keeps[u.Obj][pi] = true
					}
					return
				}
				if capturedFromOutside(v) {
					closureSinks[u] = append(closureSinks[u], deferred{v, how, node})
					return
				}
				if kind == "W" {
					nW++
				} else {
					nR++
				}
				if fs.isFresh(v) {
					c.r.ok("R26", key, m.pos(node.Pos()), v.Name()+" is known to refer to memory allocated by the library (copy) on every path", props...)
					return
				}
				// a parameter of a helper (newLeaf(key, …)) – or a local that is only ever a reslice of
				// one: the obligation moves to the call sites of the helper
				if src := resliceSource(info, u.Body, v); src != nil && src != v && !isTreeMethod(u) && !assignedAnywhere(info, u.Body, src) {
					if pi := paramIndex(u, src); pi >= 0 {
						if okAll, nCalls, _ := paramFreshAtCalls(u, pi); okAll && nCalls > 0 {
							c.r.ok("R26", key, m.pos(node.Pos()), fmt.Sprintf("%s is a reslice of parameter %s: every one of the %d call sites in byte-keyed trees passes a copy made by the library", v.Name(), src.Name(), nCalls), props...)
							return
						}
					}
				}
				if pi := paramIndex(u, v); pi >= 0 && !isTreeMethod(u) && !assignedAnywhere(info, u.Body, v) {
					if okAll, nCalls, _ := paramFreshAtCalls(u, pi); okAll && nCalls > 0 {
						c.r.ok("R26", key, m.pos(node.Pos()), fmt.Sprintf("parameter %s: every one of the %d call sites in byte-keyed trees passes a copy made by the library", v.Name(), nCalls), props...)
						return
					}
				}
				if pi := paramIndex(u, v); kind == "R" && pi >= 0 && u.Obj != nil && keeps[u.Obj][pi] && !isTreeMethod(u) {
					// the helper only hands the reference on (or builds a leaf for its caller): every
					// call of it in the byte-keyed trees is a sink of its argument and is judged there
					n := 0
					for _, s := range c.callSitesOf(u) {
						if reach[s.u] && inByteKind(s.u) {
							n++
						}
					}
					if n > 0 {
						c.r.ok("R26", key, m.pos(node.Pos()), fmt.Sprintf("parameter %s: each of the %d calls of %s in byte-keyed trees is judged as the place that keeps the reference", v.Name(), n, u.Name), props...)
						return
					}
				}
				if kind == "W" {
					c.r.bad("R26", key, m.pos(node.Pos()), fmt.Sprintf("%s may alias the caller's key slice here and is written to (an append writes into the spare capacity of the caller's backing array)", v.Name()), props...)
				} else {
					c.r.bad("R26", key, m.pos(node.Pos()), fmt.Sprintf("%s may alias the caller's key slice here and a reference to its bytes is stored in the tree: reusing the buffer later changes the stored key", v.Name()), props...)
				}
			}
			fl.walk(func(n ast.Node, fs *FactSet, stmt ast.Node, b *cfg.Block) {
				switch x := n.(type) {
				case *ast.CallExpr:
					name := m.calleeName(x)
					switch {
					case isBuiltinCall(info, x, "append") && len(x.Args) > 0:
						if v := suspect(x.Args[0]); v != nil {
							sink("W", v, "append to", x, fs)
						}
					case (isBuiltinCall(info, x, "copy") || isBuiltinCall(info, x, "clear")) && len(x.Args) > 0:
						if v := suspect(x.Args[0]); v != nil {
							sink("W", v, "copy into", x, fs)
						}
					case name == "unsafe.SliceData" && len(x.Args) == 1:
						if v := suspect(x.Args[0]); v != nil {
							sink("R", v, "stores the data pointer of", x, fs)
						}
					case name == "sync.Pool.Put" && len(x.Args) == 1:
						// a pooled buffer is written by whoever takes it next
						a := ast.Unparen(x.Args[0])
						if ue, ok := a.(*ast.UnaryExpr); ok && ue.Op == token.AND {
							a = ue.X
						}
						if v := suspect(a); v != nil {
							sink("R", v, "hands to a pool the slice", x, fs)
						}
					default:
						// passing a suspect slice to a callee that writes through that parameter
						var w map[int]bool
						if f := m.staticCallee(x); f != nil {
							if f.Pkg() == m.Pkg {
								w = c.e.writesThrough(f)
							} else {
								w = externalWrites[name]
								if w == nil && !isExternalPure(name) && !isConversion(info, x) {
									w = map[int]bool{}
									for i := range x.Args {
										w[i] = true
									}
								}
							}
						}
						for i := range w {
							if a := callArgFor(x, i); a != nil {
								if v := suspect(a); v != nil {
									sink("W", v, "passes to "+name+", which writes through its argument,", x, fs)
								}
							}
						}
						if f := m.staticCallee(x); f != nil && !silent && inByteKind(u) {
							for i := range keeps[f] {
								if a := callArgFor(x, i); a != nil {
									if v := suspect(a); v != nil {
										sink("R", v, "passes to "+name+", which keeps a reference to its argument,", x, fs)
									}
								}
							}
						}
					}
				case *ast.AssignStmt:
					for i, l := range x.Lhs {
						if ie, ok := ast.Unparen(l).(*ast.IndexExpr); ok {
							if v := suspect(ie.X); v != nil {
								sink("W", v, "indexed store into", x, fs)
							}
						}
						// storing the slice itself into non-local memory
						if _, isId := ast.Unparen(l).(*ast.Ident); !isId && len(x.Lhs) == len(x.Rhs) {
							if v := suspect(x.Rhs[i]); v != nil {
								if rv, through := rootVar(info, l); rv == nil || through {
									if why := c.scratchField(l); why != "" && !fs.isFresh(v) {
										nR++
										c.r.ok("R26", fmt.Sprintf("%s stores in scratch field the slice %s", u.Name, v.Name()), m.pos(x.Pos()), why, props...)
										c.r.exception(why)
									} else {
										sink("R", v, "stores in the tree the slice", x, fs)
									}
								}
							}
						}
					}
				case *ast.UnaryExpr:
					if x.Op == token.AND {
						if ie, ok := ast.Unparen(x.X).(*ast.IndexExpr); ok {
							if v := suspect(ie.X); v != nil {
								sink("R", v, "takes the address of an element of", x, fs)
							}
						}
					}
				case *ast.KeyValueExpr:
					if v := suspect(x.Value); v != nil {
						if localStackEntry(c, u, x) {
							break // an entry of a work stack that lives and dies with this call
						}
						sink("R", v, "stores in a composite literal the slice", x, fs)
					}
				}
			})
		}
	}
	// closures: evaluate the deferred sinks at every call site of the closure
	for lu, ds := range closureSinks {
		props := []string{"C13"}
		if strings.Contains(strings.ToLower(lu.Name), "collat") {
			props = append(props, "C08")
		}
		// find the variable bound to this literal and its call sites in the parent
		var bound *types.Var
		for v, x := range m.LitOfVar {
			if x == lu {
				bound = v
			}
		}
		parent := lu.Parent
		if bound == nil || parent == nil {
			// a returned/escaping closure (lazy sequences capturing their bounds): by design they
			// only read their captured arguments; any write sink inside them is a violation
			for _, d := range ds {
				if strings.HasPrefix(d.how, "stores") || strings.HasPrefix(d.how, "takes") {
					c.r.bad("R26", fmt.Sprintf("%s %s %s", lu.Name, d.how, d.v.Name()), m.pos(d.node.Pos()), "a returned closure keeps a reference to caller key bytes in tree memory", props...)
				} else {
					c.r.bad("R26", fmt.Sprintf("%s %s %s", lu.Name, d.how, d.v.Name()), m.pos(d.node.Pos()), "a returned closure writes through a captured key argument", props...)
				}
			}
			continue
		}
		pfl := c.e.flow(parent)
		nCalls := 0
		pfl.walk(func(n ast.Node, fs *FactSet, stmt ast.Node, b *cfg.Block) {
			call, ok := n.(*ast.CallExpr)
			if !ok || identVar(info, call.Fun) != bound {
				return
			}
			nCalls++
			for _, d := range ds {
				nR++
				key := fmt.Sprintf("%s (called in %s) %s %s", lu.Name, parent.Name, d.how, d.v.Name())
				freshAtCallers := false
				if pi := paramIndex(parent, d.v); pi >= 0 && !isTreeMethod(parent) && !assignedAnywhere(info, parent.Body, d.v) {
					// the enclosing function is itself a helper (Insert → insert(keyS, colKey, val)):
					// its parameter is what its callers pass
					if okAll, n, _ := paramFreshAtCalls(parent, pi); okAll && n > 0 {
						freshAtCallers = true
					}
				}
				if fs.isFresh(d.v) {
					c.r.ok("R26", key, m.pos(call.Pos()), "at this call "+d.v.Name()+" refers to a copy made by the library", props...)
				} else if freshAtCallers {
					c.r.ok("R26", key, m.pos(call.Pos()), d.v.Name()+" is a parameter of the helper "+parent.Name+": every call site in byte-keyed trees passes a copy made by the library", props...)
				} else {
					c.r.bad("R26", key, m.pos(call.Pos()), fmt.Sprintf("the closure stores a reference to the bytes of %s, which at this call may still be the caller's key slice: the leaf would alias the caller's buffer", d.v.Name()), props...)
				}
			}
		})
		if nCalls == 0 {
			c.r.undecided("R26", lu.Name+" call sites", m.pos(lu.Lit.Pos()), "closure with key sinks is never called directly", props...)
		}
	}
	// ---- escaping closures (returned sequences, predicates handed to a scan) are evaluated after
	// the API call has returned: a slice they capture must be library-owned memory
	nEsc := 0
	for _, u := range units {
		if u.Lit != nil {
			continue // literals are visited through the function that declares them
		}
		fl := c.e.flow(u)
		props := []string{"C13"}
		if strings.Contains(strings.ToLower(u.Name), "collat") {
			props = append(props, "C08")
		}
		// a lazily evaluated sequence that still reads the caller's buffer yields the keys for
		// whatever the buffer holds when it is ranged over, not for the argument of the call
		switch {
		case strings.HasSuffix(u.Name, ".Prefix"):
			props = append(props, "C04")
		case strings.HasSuffix(u.Name, ".Range") || u.Name == "rangeScan":
			props = append(props, "C03")
		}
		fl.walk(func(n ast.Node, fs *FactSet, stmt ast.Node, b *cfg.Block) {
			lit, ok := n.(*ast.FuncLit)
			if !ok {
				return
			}
			lu := m.LitUnit[lit]
			if lu == nil {
				return
			}
			// a closure bound to a variable that is only ever called stays inside the call
			if as, ok := stmt.(*ast.AssignStmt); ok && len(as.Lhs) == 1 {
				if bv := identVar(info, as.Lhs[0]); bv != nil && m.LitOfVar[bv] == lu {
					onlyCalled := true
					ast.Inspect(u.Body, func(x ast.Node) bool {
						switch y := x.(type) {
						case *ast.CallExpr:
							for _, a := range y.Args {
								if identVar(info, a) == bv {
									onlyCalled = false
								}
							}
						case *ast.ReturnStmt:
							for _, r := range y.Results {
								if identVar(info, r) == bv {
									onlyCalled = false
								}
							}
						}
						return true
					})
					if onlyCalled {
						return
					}
				}
			}
			// captured suspect slices
			seen := map[*types.Var]bool{}
			ast.Inspect(lit.Body, func(x ast.Node) bool {
				id, ok := x.(*ast.Ident)
				if !ok {
					return true
				}
				v, _ := info.ObjectOf(id).(*types.Var)
				if v == nil || seen[v] || v.IsField() || (v.Pos() >= lit.Pos() && v.Pos() <= lit.End()) {
					return true
				}
				if !probe[v] || !isByteSlice(v.Type()) {
					return true
				}
				seen[v] = true
				nEsc++
				key := fmt.Sprintf("%s closure evaluated after the call captures %s", u.Name, v.Name())
				if fs.isFresh(v) {
					c.r.ok("R26", key, m.pos(lit.Pos()), v.Name()+" refers to a copy made by the library", props...)
					return true
				}
				// a helper's parameter (or a reslice of one): the obligation moves to its call sites
				src := v
				{
					// every assignment to v is a reslice (or copy) of one and the same variable?
					var from *types.Var
					consistent := true
					ast.Inspect(u.Body, func(z ast.Node) bool {
						as, ok := z.(*ast.AssignStmt)
						if !ok || len(as.Lhs) != len(as.Rhs) {
							return true
						}
						for i, l := range as.Lhs {
							if identVar(info, l) != v {
								continue
							}
							e := ast.Unparen(as.Rhs[i])
							for {
								if se, ok := e.(*ast.SliceExpr); ok {
									e = ast.Unparen(se.X)
									continue
								}
								break
							}
							pv := identVar(info, e)
							if pv == nil || (from != nil && from != pv) {
								consistent = false
							}
							from = pv
						}
						return true
					})
					if consistent && from != nil {
						src = from
					}
				}
				pi := paramIndex(u, src)
				if pi >= 0 && !isTreeMethod(u) {
					okAll, nCalls, badAt := paramFreshAtCalls(u, pi)
					if okAll {
						c.r.ok("R26", key, m.pos(lit.Pos()), fmt.Sprintf("parameter %s: every one of the %d call sites in byte-keyed trees passes a copy made by the library", src.Name(), nCalls), props...)
					} else {
						c.r.bad("R26", key, m.pos(lit.Pos()), fmt.Sprintf("the closure is evaluated lazily and reads %s, which %s passes as a slice that may still be the caller's key buffer: reusing the buffer after the call changes what the sequence yields", v.Name(), badAt), props...)
					}
					return true
				}
				c.r.bad("R26", key, m.pos(lit.Pos()), fmt.Sprintf("the closure is evaluated after the call has returned and reads %s, which may still be the caller's key slice: reusing the buffer afterwards changes what the returned sequence yields", v.Name()), props...)
				return true
			})
		})
	}
	c.r.note("R26: %d slices captured by closures that outlive the call", nEsc)
	c.r.note("R26: %d write sinks and %d retention sinks on slices that may alias a key argument, in %d functions reachable from byte-keyed entry points", nW, nR, len(units))
	c.r.floor("R26", 5, "alias sinks", "C13")
	c.r26UserCodecWrites(probe, suspect)
}

// r26UserCodecWrites – the write half of C13 for the trees whose keys are encoded by a codec the
// user supplies (compound trees): what such a Transform returns may be the caller's own bytes (a
// pass-through codec over a []byte field), so the library must not write through it either – an
// append in place, a copy into it, an indexed store. Keeping a reference is this tree kind's
// documented behaviour and is not examined here.
func (c *Ctx) r26UserCodecWrites(probe map[*types.Var]bool, suspect func(ast.Expr) *types.Var) {
	m := c.m
	info := m.Info
	nW := 0
	for _, tk := range m.Trees {
		if !isCompoundKind(tk) {
			continue
		}
		var roots []*FuncUnit
		for _, mn := range []string{"Insert", "Search", "Delete", "Prefix", "Range"} {
			if u := tk.Methods[mn]; u != nil {
				roots = append(roots, u)
			}
		}
		reach := c.reachableFrom(roots)
		for _, u := range c.sortedUnits() {
			if !reach[u] || u.Body == nil {
				continue
			}
			top := u
			for top.Parent != nil {
				top = top.Parent
			}
			if top.Recv != tk.Name {
				continue // shared helpers are judged with the byte-keyed kinds
			}
			props := []string{"C13", "C09"}
			fl := c.e.flow(u)
			report := func(v *types.Var, how string, node ast.Node, fs *FactSet) {
				nW++
				key := fmt.Sprintf("%s %s %s", u.Name, how, v.Name())
				if fs.isFresh(v) {
					c.r.ok("R26", key, m.pos(node.Pos()), v.Name()+" is known to refer to memory allocated by the library (copy) on every path", props...)
					return
				}
				c.r.bad("R26", key, m.pos(node.Pos()), fmt.Sprintf("%s is what the user's key codec returned and may be the caller's own bytes (a codec that passes a []byte field through): writing here changes the caller's memory – an append writes into the spare capacity of the caller's backing array", v.Name()), props...)
			}
			fl.walk(func(n ast.Node, fs *FactSet, stmt ast.Node, b *cfg.Block) {
				switch x := n.(type) {
				case *ast.CallExpr:
					switch {
					case isBuiltinCall(info, x, "append") && len(x.Args) > 0:
						if v := suspect(x.Args[0]); v != nil {
							report(v, "append to", x, fs)
						}
					case (isBuiltinCall(info, x, "copy") || isBuiltinCall(info, x, "clear")) && len(x.Args) > 0:
						if v := suspect(x.Args[0]); v != nil {
							report(v, "copy into", x, fs)
						}
					}
				case *ast.AssignStmt:
					for _, l := range x.Lhs {
						if ie, ok := ast.Unparen(l).(*ast.IndexExpr); ok {
							if v := suspect(ie.X); v != nil {
								report(v, "indexed store into", x, fs)
							}
						}
					}
				}
			})
		}
	}
	c.r.note("R26: %d write sinks on codec results in trees with a user-supplied codec", nW)
}

// R17 COLLBUF – discipline of the tree-lifetime collation buffer.
func ruleR17(c *Ctx) {
	m := c.m
	info := m.Info
	props := []string{"C17", "C08", "C15"}
	n := 0
	for _, u := range c.sortedUnits() {
		if u.Lit != nil {
			continue
		}
		var parents []ast.Node
		ast.Inspect(u.Body, func(nd ast.Node) bool {
			if nd == nil {
				parents = parents[:len(parents)-1]
				return true
			}
			parents = append(parents, nd)
			call, ok := nd.(*ast.CallExpr)
			if !ok {
				return true
			}
			name := m.calleeName(call)
			if name != "golang.org/x/text/collate.Collator.Key" && name != "golang.org/x/text/collate.Collator.KeyFromString" {
				return true
			}
			n++
			buf := call.Args[0]
			bufText := display((&canonCtx{info: info}).canon(buf))
			// does the buffer outlive the call? (a field or global rather than a local allocation)
			longLived := true
			if v := identVar(info, buf); v != nil && !v.IsField() && v.Parent() != m.Pkg.Scope() {
				if def := singleDef(info, u.Body, v); def != nil && isFreshExpr(c.m, def) {
					longLived = false
				}
			}
			key := fmt.Sprintf("%s sort key taken from buffer %s", u.Name, bufText)
			if !longLived {
				c.r.ok("R17", key, m.pos(call.Pos()), "the buffer is local to the call", props...)
				return true
			}
			// (a) the returned slice aliases the buffer: it must be copied before it leaves
			copied := false
			if len(parents) >= 2 {
				if pc, ok := parents[len(parents)-2].(*ast.CallExpr); ok {
					pn := m.calleeName(pc)
					if pn == "bytes.Clone" || pn == "slices.Clone" {
						copied = true
					}
					if isBuiltinCall(info, pc, "append") && len(pc.Args) >= 2 {
						fl := c.e.flow(u)
						if blk, bi := blockOf(fl.g, pc); blk != nil && fl.in[blk.Index] != nil && fl.freshExpr(pc.Args[0], fl.setBefore(blk, bi), 0) {
							copied = true
						}
					}
				}
			}
			// (b) a Reset of the same buffer follows in the same block, before any return
			reset := false
			var resets int
			ast.Inspect(u.Body, func(x ast.Node) bool {
				if rc, ok := x.(*ast.CallExpr); ok && m.calleeName(rc) == "golang.org/x/text/collate.Buffer.Reset" {
					if sel, ok := rc.Fun.(*ast.SelectorExpr); ok && display((&canonCtx{info: info}).canon(sel.X)) == bufText {
						resets++
						if rc.Pos() > call.Pos() {
							reset = true
						}
					}
				}
				return true
			})
			// a return between the call and the reset would skip it
			if reset {
				g := m.cfgOf(u)
				kb, _ := blockOf(g, call)
				for _, b := range g.Blocks {
					if !b.Live || len(b.Succs) != 0 || isPanicBlock(info, b) {
						continue
					}
					hasReset := false
					for blk := range reachableTo(g, kb, b) {
						for _, nd2 := range blk.Nodes {
							ast.Inspect(nd2, func(x ast.Node) bool {
								if rc, ok := x.(*ast.CallExpr); ok && m.calleeName(rc) == "golang.org/x/text/collate.Buffer.Reset" && rc.Pos() > call.Pos() {
									hasReset = true
								}
								return true
							})
						}
					}
					if !hasReset && kb != nil && reachable(kb)[b] {
						reset = false
					}
				}
			}
			switch {
			case copied && reset:
				c.r.ok("R17", key, m.pos(call.Pos()), "the key is copied out of the tree-lifetime buffer and the buffer is reset on every path: it does not grow with the number of calls and stored keys do not alias it", props...)
			case !reset && resets == 0:
				c.r.bad("R17", key, m.pos(call.Pos()), "every call appends a sort key to the tree-lifetime buffer "+bufText+" and nothing ever resets it: memory grows with the number of operations (queries included)", props...)
			case !reset:
				c.r.bad("R17", key, m.pos(call.Pos()), "a path returns without resetting the tree-lifetime buffer "+bufText, props...)
			default:
				c.r.bad("R17", key, m.pos(call.Pos()), "the buffer is reset but the sort key handed out still aliases it: the next call overwrites the sort keys of stored leaves", append(props, "C01")...)
			}
			return true
		})
	}
	if n == 0 {
		c.r.undecided("R17", "sort-key generation site", "-", "no call of (*collate.Collator).Key found", props...)
	}
}

// reachableTo: blocks on some path from a to b (inclusive).
func reachableTo(g *cfg.CFG, a, b *cfg.Block) map[*cfg.Block]bool {
	out := map[*cfg.Block]bool{}
	if a == nil || b == nil {
		return out
	}
	fromA := reachable(a)
	for blk := range fromA {
		if reachable(blk)[b] {
			out[blk] = true
		}
	}
	return out
}

// scratchField: lhs is a struct field that no function reachable from the Tree API ever reads
// (one-symbol exception: codec scratch). Returns the justification or "".
func (c *Ctx) scratchField(lhs ast.Expr) string {
	info := c.m.Info
	sel, ok := ast.Unparen(lhs).(*ast.SelectorExpr)
	if !ok {
		return ""
	}
	s := info.Selections[sel]
	if s == nil || s.Kind() != types.FieldVal {
		return ""
	}
	field, _ := s.Obj().(*types.Var)
	owner := namedOf(info.TypeOf(sel.X))
	if field == nil || owner == nil || !isCodecType(owner) {
		return ""
	}
	var roots []*FuncUnit
	for _, tk := range c.m.Trees {
		for _, n := range sortedKeys(tk.Methods) {
			roots = append(roots, tk.Methods[n])
		}
	}
	reach := c.reachableFrom(roots)
	var readers []string
	for _, u := range c.m.Units {
		if u.Lit != nil {
			continue
		}
		ast.Inspect(u.Body, func(n ast.Node) bool {
			// skip the left-hand sides of plain assignments
			if as, ok := n.(*ast.AssignStmt); ok {
				for _, r := range as.Rhs {
					ast.Inspect(r, func(z ast.Node) bool {
						if se, ok := z.(*ast.SelectorExpr); ok {
							if ss := info.Selections[se]; ss != nil {
								if fv, ok := ss.Obj().(*types.Var); ok && fv.Origin() == field.Origin() && reach[u] {
									readers = append(readers, u.Name)
								}
							}
						}
						return true
					})
				}
				return false
			}
			if se, ok := n.(*ast.SelectorExpr); ok {
				if ss := info.Selections[se]; ss != nil {
					if fv, ok := ss.Obj().(*types.Var); ok && fv.Origin() == field.Origin() && reach[u] {
						readers = append(readers, u.Name)
					}
				}
			}
			return true
		})
	}
	if len(readers) > 0 {
		return ""
	}
	return fmt.Sprintf("exception %s.%s: codec scratch that no function reachable from the Tree API reads (its only reader, Restore, is never called by the collation tree), so the retained slice is unobservable and bounded to one key", owner.Obj().Name(), field.Name())
}

// assignedAnywhere: v is the target of an assignment or inc/dec in body (its definition as a
// parameter does not count).
func assignedAnywhere(info *types.Info, body ast.Node, v *types.Var) bool {
	found := false
	ast.Inspect(body, func(n ast.Node) bool {
		switch x := n.(type) {
		case *ast.AssignStmt:
			for _, l := range x.Lhs {
				if identVar(info, l) == v {
					found = true
				}
			}
		case *ast.IncDecStmt:
			if identVar(info, x.X) == v {
				found = true
			}
		}
		return !found
	})
	return found
}

// resliceSource: the one variable of which every assignment to v is a reslice or plain copy
// (nil if v is assigned anything else, or from several variables).
func resliceSource(info *types.Info, body ast.Node, v *types.Var) *types.Var {
	var from *types.Var
	consistent, any := true, false
	ast.Inspect(body, func(z ast.Node) bool {
		as, ok := z.(*ast.AssignStmt)
		if !ok || len(as.Lhs) != len(as.Rhs) {
			return true
		}
		for i, l := range as.Lhs {
			if identVar(info, l) != v {
				continue
			}
			any = true
			e := ast.Unparen(as.Rhs[i])
			for {
				if se, ok := e.(*ast.SliceExpr); ok {
					e = ast.Unparen(se.X)
					continue
				}
				break
			}
			pv := identVar(info, e)
			if pv == nil || (from != nil && from != pv) {
				consistent = false
			}
			from = pv
		}
		return true
	})
	if !any || !consistent {
		return nil
	}
	return from
}

// localStackEntry: the key-value element belongs to a composite literal that is appended to a local
// slice of this function which is only ever appended to, resliced, indexed and measured (a work
// stack): what the literal holds is not retained beyond the call.
func localStackEntry(c *Ctx, u *FuncUnit, kv *ast.KeyValueExpr) bool {
	info := c.m.Info
	var stackVar *types.Var
	ast.Inspect(u.Body, func(n ast.Node) bool {
		as, ok := n.(*ast.AssignStmt)
		if !ok || len(as.Lhs) != 1 || len(as.Rhs) != 1 {
			return true
		}
		call, ok := ast.Unparen(as.Rhs[0]).(*ast.CallExpr)
		if !ok || !isBuiltinCall(info, call, "append") || len(call.Args) < 2 {
			return true
		}
		v := identVar(info, as.Lhs[0])
		if v == nil || identVar(info, call.Args[0]) != v {
			return true
		}
		for _, a := range call.Args[1:] {
			if lit, ok := ast.Unparen(a).(*ast.CompositeLit); ok {
				for _, el := range lit.Elts {
					if el == ast.Expr(kv) {
						stackVar = v
					}
				}
			}
		}
		return true
	})
	if stackVar == nil || stackVar.IsField() || u.Body == nil || stackVar.Pos() < u.Body.Pos() || stackVar.Pos() > u.Body.End() {
		return false
	}
	// every use of the stack keeps it local
	okAll := true
	var stack []ast.Node
	ast.Inspect(u.Body, func(n ast.Node) bool {
		if n == nil {
			stack = stack[:len(stack)-1]
			return true
		}
		stack = append(stack, n)
		id, ok := n.(*ast.Ident)
		if !ok || info.Uses[id] != types.Object(stackVar) || len(stack) < 2 {
			return true
		}
		switch p := stack[len(stack)-2].(type) {
		case *ast.IndexExpr:
			if p.X != ast.Expr(id) {
				okAll = false
			}
		case *ast.SliceExpr:
			if p.X != ast.Expr(id) {
				okAll = false
			} else if len(stack) >= 3 {
				// q[:n] only as the new value of q itself
				if as, isAs := stack[len(stack)-3].(*ast.AssignStmt); !isAs || len(as.Lhs) != 1 || identVar(info, as.Lhs[0]) != stackVar {
					okAll = false
				}
			}
		case *ast.CallExpr:
			switch {
			case isBuiltinCall(info, p, "len"), isBuiltinCall(info, p, "cap"):
			case isBuiltinCall(info, p, "append") && len(p.Args) > 0 && p.Args[0] == ast.Expr(id):
				if len(stack) >= 3 {
					if as, isAs := stack[len(stack)-3].(*ast.AssignStmt); !isAs || len(as.Lhs) != 1 || identVar(info, as.Lhs[0]) != stackVar {
						okAll = false
					}
				}
			default:
				okAll = false
			}
		case *ast.AssignStmt:
			isLhs := false
			for _, l := range p.Lhs {
				if l == ast.Expr(id) {
					isLhs = true
				}
			}
			if !isLhs {
				okAll = false
			}
		case *ast.RangeStmt:
			if p.X != ast.Expr(id) {
				okAll = false
			}
		default:
			okAll = false
		}
		return true
	})
	return okAll
}
