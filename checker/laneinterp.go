package main

// Abstract interpretation of the lane helpers of the packed key word (C10).
//
// The 4-slot class keeps its key bytes in the lanes of one machine word; a handful of helpers
// read a lane, store a lane, and open or close a gap among the lanes – the counterpart of the
// element store and the two copy() calls that the same blocks apply to the children array. On a
// word whose lanes are symbols (the old lane 0…L-1, the byte argument, all-zero, all-one) these
// helpers are lane permutations: every shift is by a multiple of 8 once the position argument is
// fixed, every mask is lane-aligned. The interpreter executes a helper for each position it can be
// called with (a finite case split, no value is enumerated) and compares the resulting lanes
// with the contract that the children array obeys in the caller. Anything that leaves the domain
// (a shift that is not a whole number of lanes, an OR of two different symbols, arithmetic on
// lanes) makes the lane "unknown"; if a lane the contract constrains is unknown or another
// symbol, the helper is reported with the position and the lane.

import (
	"fmt"
	"go/ast"
	"go/constant"
	"go/token"
	"go/types"
	"strings"
)

type laneKind int

const (
	lkZero laneKind = iota
	lkOnes
	lkSym // old lane sym
	lkB   // the byte argument
	lkUnknown
)

type laneV struct {
	k   laneKind
	sym int
}

func (l laneV) String() string {
	switch l.k {
	case lkZero:
		return "0"
	case lkOnes:
		return "0xFF"
	case lkSym:
		return fmt.Sprintf("old lane %d", l.sym)
	case lkB:
		return "b"
	}
	return "?"
}

// wordV: an integer value – concrete, or a word of symbolic lanes (w = 8·len(lanes)).
type wordV struct {
	conc  bool
	c     uint64
	w     int // bits
	lanes []laneV
	bad   string // why the value is not tracked at all
}

func concV(c uint64, w int) wordV {
	if w > 0 && w < 64 {
		c &= (uint64(1) << uint(w)) - 1
	}
	return wordV{conc: true, c: c, w: w}
}

func (v wordV) toLanes(n int) []laneV {
	if !v.conc {
		out := make([]laneV, n)
		for i := range out {
			if i < len(v.lanes) {
				out[i] = v.lanes[i]
			} else {
				out[i] = laneV{k: lkZero}
			}
		}
		return out
	}
	out := make([]laneV, n)
	for i := range out {
		b := byte(v.c >> (8 * uint(i)))
		switch b {
		case 0:
			out[i] = laneV{k: lkZero}
		case 0xFF:
			out[i] = laneV{k: lkOnes}
		default:
			out[i] = laneV{k: lkUnknown}
		}
	}
	return out
}

type laneInterp struct {
	c    *Ctx
	info *types.Info
	env  map[*types.Var]wordV // locals and parameters
	mem  map[*types.Var]wordV // *p for pointer parameters
	fail string
	ret  *wordV
}

func (it *laneInterp) giveUp(format string, args ...any) wordV {
	if it.fail == "" {
		it.fail = fmt.Sprintf(format, args...)
	}
	return wordV{bad: it.fail}
}

func (it *laneInterp) widthOf(e ast.Expr) int {
	t := it.info.TypeOf(e)
	if t == nil {
		return 0
	}
	b, ok := t.Underlying().(*types.Basic)
	if !ok || b.Info()&types.IsInteger == 0 || b.Info()&types.IsUntyped != 0 {
		return 0
	}
	return int(8 * it.c.L.Sizes.Sizeof(t))
}

func (it *laneInterp) eval(e ast.Expr) wordV {
	e = ast.Unparen(e)
	info := it.info
	if tv, ok := info.Types[e]; ok && tv.Value != nil && tv.Value.Kind() == constant.Int {
		if u, exact := constant.Uint64Val(tv.Value); exact {
			return concV(u, it.widthOf(e))
		}
		if i, exact := constant.Int64Val(tv.Value); exact {
			return concV(uint64(i), it.widthOf(e))
		}
	}
	switch x := e.(type) {
	case *ast.Ident:
		if v, ok := info.ObjectOf(x).(*types.Var); ok {
			if val, has := it.env[v]; has {
				return val
			}
		}
		return it.giveUp("variable %s", x.Name)
	case *ast.StarExpr:
		if v := identVar(info, x.X); v != nil {
			if val, has := it.mem[v]; has {
				return val
			}
		}
		return it.giveUp("dereference %s", types.ExprString(e))
	case *ast.CallExpr:
		if isConversion(info, x) && len(x.Args) == 1 {
			v := it.eval(x.Args[0])
			if v.bad != "" {
				return v
			}
			w := it.widthOf(x)
			if w == 0 {
				return it.giveUp("conversion to %s", types.ExprString(x.Fun))
			}
			if v.conc {
				return concV(v.c, w)
			}
			n := w / 8
			return wordV{w: w, lanes: v.toLanes(n)}
		}
		return it.giveUp("call %s", types.ExprString(x.Fun))
	case *ast.UnaryExpr:
		v := it.eval(x.X)
		if v.bad != "" {
			return v
		}
		switch x.Op {
		case token.XOR:
			w := v.w
			if w == 0 {
				w = it.widthOf(e)
			}
			if v.conc {
				return concV(^v.c, w)
			}
			out := wordV{w: v.w, lanes: make([]laneV, len(v.lanes))}
			for i, l := range v.lanes {
				switch l.k {
				case lkZero:
					out.lanes[i] = laneV{k: lkOnes}
				case lkOnes:
					out.lanes[i] = laneV{k: lkZero}
				default:
					out.lanes[i] = laneV{k: lkUnknown}
				}
			}
			return out
		case token.SUB:
			if v.conc {
				return concV(-v.c, v.w)
			}
		case token.ADD:
			return v
		}
		return it.giveUp("unary %s", x.Op)
	case *ast.BinaryExpr:
		l, r := it.eval(x.X), it.eval(x.Y)
		if l.bad != "" {
			return l
		}
		if r.bad != "" {
			return r
		}
		return it.binop(x.Op, l, r, it.widthOf(e))
	}
	return it.giveUp("expression %s", types.ExprString(e))
}

func (it *laneInterp) binop(op token.Token, l, r wordV, w int) wordV {
	if w == 0 {
		w = max(l.w, r.w)
	}
	if l.w == 0 {
		l.w = w
	}
	if r.w == 0 {
		r.w = w
	}
	switch op {
	case token.SHL, token.SHR:
		if !r.conc {
			return it.giveUp("shift by a symbolic amount")
		}
		n := r.c
		if l.conc {
			if n >= uint64(l.w) {
				return concV(0, l.w)
			}
			if op == token.SHL {
				return concV(l.c<<n, l.w)
			}
			return concV(l.c>>n, l.w)
		}
		L := len(l.lanes)
		out := wordV{w: l.w, lanes: make([]laneV, L)}
		if n%8 != 0 {
			// not a whole number of lanes: every lane that receives bits is unknown
			for i := range out.lanes {
				out.lanes[i] = laneV{k: lkUnknown}
			}
			return out
		}
		k := int(n / 8)
		for i := range out.lanes {
			src := i - k
			if op == token.SHR {
				src = i + k
			}
			if k >= L || src < 0 || src >= L {
				out.lanes[i] = laneV{k: lkZero}
			} else {
				out.lanes[i] = l.lanes[src]
			}
		}
		return out
	case token.AND, token.OR, token.XOR, token.AND_NOT:
		if l.conc && r.conc {
			switch op {
			case token.AND:
				return concV(l.c&r.c, w)
			case token.OR:
				return concV(l.c|r.c, w)
			case token.XOR:
				return concV(l.c^r.c, w)
			default:
				return concV(l.c&^r.c, w)
			}
		}
		L := w / 8
		if !l.conc {
			L = len(l.lanes)
		} else if !r.conc {
			L = len(r.lanes)
		}
		a, b := l.toLanes(L), r.toLanes(L)
		out := wordV{w: 8 * L, lanes: make([]laneV, L)}
		for i := 0; i < L; i++ {
			x, y := a[i], b[i]
			if op == token.AND_NOT {
				switch y.k {
				case lkZero:
					y = laneV{k: lkOnes}
				case lkOnes:
					y = laneV{k: lkZero}
				default:
					y = laneV{k: lkUnknown}
				}
			}
			var z laneV
			switch op {
			case token.AND, token.AND_NOT:
				switch {
				case x.k == lkZero || y.k == lkZero:
					z = laneV{k: lkZero}
				case x.k == lkOnes:
					z = y
				case y.k == lkOnes:
					z = x
				case x == y && x.k != lkUnknown:
					z = x
				default:
					z = laneV{k: lkUnknown}
				}
			case token.OR:
				switch {
				case x.k == lkZero:
					z = y
				case y.k == lkZero:
					z = x
				case x.k == lkOnes || y.k == lkOnes:
					if x.k != lkUnknown && y.k != lkUnknown {
						z = laneV{k: lkOnes}
					} else {
						z = laneV{k: lkUnknown}
					}
				case x == y && x.k != lkUnknown:
					z = x
				default:
					z = laneV{k: lkUnknown}
				}
			case token.XOR:
				switch {
				case x.k == lkZero:
					z = y
				case y.k == lkZero:
					z = x
				case x == y && x.k != lkUnknown:
					z = laneV{k: lkZero}
				default:
					z = laneV{k: lkUnknown}
				}
			}
			out.lanes[i] = z
		}
		return out
	case token.ADD, token.SUB, token.MUL, token.QUO, token.REM:
		if l.conc && r.conc {
			switch op {
			case token.ADD:
				return concV(l.c+r.c, w)
			case token.SUB:
				return concV(l.c-r.c, w)
			case token.MUL:
				return concV(l.c*r.c, w)
			case token.QUO:
				if r.c != 0 {
					return concV(l.c/r.c, w)
				}
			case token.REM:
				if r.c != 0 {
					return concV(l.c%r.c, w)
				}
			}
		}
		return it.giveUp("arithmetic on lanes (%s)", op)
	}
	return it.giveUp("operator %s", op)
}

func (it *laneInterp) assign(lhs ast.Expr, v wordV) {
	lhs = ast.Unparen(lhs)
	switch x := lhs.(type) {
	case *ast.Ident:
		if x.Name == "_" {
			return
		}
		if lv, ok := it.info.ObjectOf(x).(*types.Var); ok {
			it.env[lv] = v
			return
		}
	case *ast.StarExpr:
		if pv := identVar(it.info, x.X); pv != nil {
			if _, has := it.mem[pv]; has {
				it.mem[pv] = v
				return
			}
		}
	}
	it.giveUp("assignment to %s", types.ExprString(lhs))
}

func (it *laneInterp) exec(list []ast.Stmt) {
	for _, st := range list {
		if it.fail != "" || it.ret != nil {
			return
		}
		switch x := st.(type) {
		case *ast.AssignStmt:
			if len(x.Lhs) != len(x.Rhs) {
				it.giveUp("multi-value assignment")
				return
			}
			vals := make([]wordV, len(x.Rhs))
			for i := range x.Rhs {
				switch x.Tok {
				case token.ASSIGN, token.DEFINE:
					vals[i] = it.eval(x.Rhs[i])
				default:
					op := map[token.Token]token.Token{token.ADD_ASSIGN: token.ADD, token.SUB_ASSIGN: token.SUB, token.XOR_ASSIGN: token.XOR, token.OR_ASSIGN: token.OR,
						token.AND_ASSIGN: token.AND, token.AND_NOT_ASSIGN: token.AND_NOT, token.SHL_ASSIGN: token.SHL, token.SHR_ASSIGN: token.SHR, token.MUL_ASSIGN: token.MUL}[x.Tok]
					if op == token.ILLEGAL {
						it.giveUp("assignment operator %s", x.Tok)
						return
					}
					l, r := it.eval(x.Lhs[i]), it.eval(x.Rhs[i])
					if l.bad != "" || r.bad != "" {
						return
					}
					vals[i] = it.binop(op, l, r, it.widthOf(x.Lhs[i]))
				}
				if vals[i].bad != "" {
					return
				}
			}
			for i, l := range x.Lhs {
				it.assign(l, vals[i])
			}
		case *ast.DeclStmt:
			gd, ok := x.Decl.(*ast.GenDecl)
			if !ok {
				it.giveUp("declaration")
				return
			}
			if gd.Tok != token.VAR {
				continue
			}
			for _, sp := range gd.Specs {
				vs := sp.(*ast.ValueSpec)
				for i, nm := range vs.Names {
					lv, _ := it.info.Defs[nm].(*types.Var)
					if lv == nil {
						continue
					}
					if i < len(vs.Values) {
						it.env[lv] = it.eval(vs.Values[i])
					} else {
						it.env[lv] = concV(0, int(8*it.c.L.Sizes.Sizeof(lv.Type())))
					}
				}
			}
		case *ast.ReturnStmt:
			if len(x.Results) == 1 {
				v := it.eval(x.Results[0])
				it.ret = &v
			} else {
				v := wordV{conc: true}
				it.ret = &v
			}
			return
		case *ast.IfStmt:
			if x.Init != nil {
				it.exec([]ast.Stmt{x.Init})
			}
			cv := it.evalCond(x.Cond)
			switch cv {
			case 1:
				it.exec(x.Body.List)
			case 0:
				if x.Else != nil {
					it.exec([]ast.Stmt{x.Else})
				}
			default:
				it.giveUp("condition %s", types.ExprString(x.Cond))
			}
		case *ast.BlockStmt:
			it.exec(x.List)
		case *ast.IncDecStmt:
			l := it.eval(x.X)
			op := token.ADD
			if x.Tok == token.DEC {
				op = token.SUB
			}
			it.assign(x.X, it.binop(op, l, concV(1, l.w), l.w))
		case *ast.EmptyStmt:
		default:
			it.giveUp("statement %T", st)
		}
	}
}

// evalCond: 1 true, 0 false, -1 not decidable (a comparison of concrete integers only).
func (it *laneInterp) evalCond(e ast.Expr) int {
	e = ast.Unparen(e)
	if tv, ok := it.info.Types[e]; ok && tv.Value != nil && tv.Value.Kind() == constant.Bool {
		if constant.BoolVal(tv.Value) {
			return 1
		}
		return 0
	}
	be, ok := e.(*ast.BinaryExpr)
	if !ok {
		return -1
	}
	l, r := it.eval(be.X), it.eval(be.Y)
	if !l.conc || !r.conc {
		return -1
	}
	signed := false
	if b, ok := it.info.TypeOf(be.X).Underlying().(*types.Basic); ok && b.Info()&types.IsUnsigned == 0 {
		signed = true
	}
	a, b := l.c, r.c
	cmp := 0
	switch {
	case signed && int64(a) < int64(b), !signed && a < b:
		cmp = -1
	case a != b:
		cmp = 1
	}
	res := false
	switch be.Op {
	case token.EQL:
		res = cmp == 0
	case token.NEQ:
		res = cmp != 0
	case token.LSS:
		res = cmp < 0
	case token.LEQ:
		res = cmp <= 0
	case token.GTR:
		res = cmp > 0
	case token.GEQ:
		res = cmp >= 0
	default:
		return -1
	}
	if res {
		return 1
	}
	return 0
}

type laneRole int

const (
	roleNone laneRole = iota
	roleGet
	roleSet
	roleOpen  // open a gap at g: lanes above g take the lane below them
	roleClose // close the gap at g: lanes from g on take the lane above them
)

// runLaneHelper executes helper u with its position parameter fixed to pos.
func (c *Ctx) runLaneHelper(u *FuncUnit, pos int64, mode ...uint64) (it *laneInterp, wordVar *types.Var, L int) {
	info := c.m.Info
	it = &laneInterp{c: c, info: info, env: map[*types.Var]wordV{}, mem: map[*types.Var]wordV{}}
	k := 0
	fields := u.Decl.Type.Params.List
	if u.Decl.Recv != nil {
		fields = append(append([]*ast.Field(nil), u.Decl.Recv.List...), fields...) // the receiver is the word
	}
	for _, f := range fields {
		t := info.TypeOf(f.Type)
		for _, nm := range f.Names {
			pv, _ := info.Defs[nm].(*types.Var)
			if pv == nil {
				k++
				continue
			}
			switch tt := t.Underlying().(type) {
			case *types.Pointer:
				if b, ok := tt.Elem().Underlying().(*types.Basic); ok && b.Info()&types.IsUnsigned != 0 {
					L = int(c.L.Sizes.Sizeof(tt.Elem()))
					lanes := make([]laneV, L)
					for i := range lanes {
						lanes[i] = laneV{k: lkSym, sym: i}
					}
					it.mem[pv] = wordV{w: 8 * L, lanes: lanes}
					wordVar = pv
				}
			case *types.Basic:
				switch {
				case k == 2 && len(mode) == 1 && isModeType(c.m, t):
					// a mode parameter (shiftClear(keys, pos, dir)): the constant of the call site
					it.env[pv] = concV(mode[0], int(8*c.L.Sizes.Sizeof(t)))
				case tt.Kind() == types.Uint8:
					it.env[pv] = wordV{w: 8, lanes: []laneV{{k: lkB}}}
				case tt.Info()&types.IsUnsigned != 0 && k == 0:
					L = int(c.L.Sizes.Sizeof(t))
					lanes := make([]laneV, L)
					for i := range lanes {
						lanes[i] = laneV{k: lkSym, sym: i}
					}
					it.env[pv] = wordV{w: 8 * L, lanes: lanes}
					wordVar = pv
				case tt.Info()&types.IsInteger != 0:
					it.env[pv] = concV(uint64(pos), int(8*c.L.Sizes.Sizeof(t)))
				}
			}
			k++
		}
	}
	it.exec(u.Body.List)
	return
}

// isModeType: a named integer (or boolean) type declared in the package – the type of a direction
// or mode parameter, as opposed to a key byte.
func isModeType(m *Model, t types.Type) bool {
	n, ok := types.Unalias(t).(*types.Named)
	if !ok || n.Obj().Pkg() != m.Pkg {
		return false
	}
	b, ok := n.Underlying().(*types.Basic)
	return ok && b.Info()&(types.IsInteger|types.IsBoolean) != 0
}

// laneHelperRole classifies a package-level function by its signature.
func (c *Ctx) laneHelperRole(u *FuncUnit) laneRole {
	if u == nil || u.Decl == nil || u.Lit != nil || u.Obj == nil || u.Body == nil {
		return roleNone
	}
	sig, _ := u.Obj.Type().(*types.Signature)
	if sig == nil {
		return roleNone
	}
	// a method of a word type (type keys4 uint32; func (k *keys4) set(pos int, b byte)): the
	// receiver is the first operand
	var ptypes []types.Type
	if sig.Recv() != nil {
		if len(u.Decl.Recv.List) != 1 || len(u.Decl.Recv.List[0].Names) != 1 {
			return roleNone
		}
		ptypes = append(ptypes, sig.Recv().Type())
	}
	for i := 0; i < sig.Params().Len(); i++ {
		ptypes = append(ptypes, sig.Params().At(i).Type())
	}
	if len(ptypes) < 2 || len(ptypes) > 3 {
		return roleNone
	}
	isWordPtr := func(t types.Type) bool {
		p, ok := t.Underlying().(*types.Pointer)
		if !ok {
			return false
		}
		b, ok := p.Elem().Underlying().(*types.Basic)
		return ok && (b.Kind() == types.Uint32 || b.Kind() == types.Uint64)
	}
	isWord := func(t types.Type) bool {
		b, ok := t.Underlying().(*types.Basic)
		return ok && (b.Kind() == types.Uint32 || b.Kind() == types.Uint64)
	}
	isByte := func(t types.Type) bool {
		b, ok := t.Underlying().(*types.Basic)
		return ok && b.Kind() == types.Uint8
	}
	isInt := func(t types.Type) bool {
		b, ok := t.Underlying().(*types.Basic)
		return ok && b.Info()&types.IsInteger != 0 && b.Kind() != types.Uint8
	}
	p0, p1 := ptypes[0], ptypes[1]
	inPlace := sig.Results().Len() == 0 && isWordPtr(p0)
	pure := sig.Results().Len() == 1 && isWord(p0) && types.Identical(sig.Results().At(0).Type(), p0)
	switch {
	case len(ptypes) == 3 && (inPlace || pure) && isInt(p1) && isModeType(c.m, ptypes[2]):
		return roleOpen // a shift with a direction parameter: decided per call site, with its constant
	case len(ptypes) == 3 && (inPlace || pure) && isInt(p1) && isByte(ptypes[2]):
		return roleSet
	case len(ptypes) == 2 && sig.Results().Len() == 1 && isWord(p0) && isInt(p1) && isByte(sig.Results().At(0).Type()):
		return roleGet
	case len(ptypes) == 2 && (inPlace || pure) && isInt(p1):
		return roleOpen // open or close: decided at the call site
	}
	return roleNone
}

// R53 LANES (C10, C11, C01, C02) – the lane helpers of the packed key word do to the lanes what the
// same block does to the children array.
func ruleR53(c *Ctx) {
	m := c.m
	props := []string{"C10", "C11", "C01", "C02"}
	n := 0
	undecided := func(key, pos, why string) {
		c.r.note("R53: %s not followed by the lane interpreter (%s); R47's pattern clause only", key, why)
	}
	roleName := map[laneRole]string{roleGet: "reads lane pos", roleSet: "stores b into lane pos and leaves the other lanes", roleOpen: "opens a gap (every lane above takes the lane below it)", roleClose: "closes a gap (every lane from it on takes the lane above it)"}
	// verdict: "ok", "bad" (with the failing position and lane) or "unknown" (with the reason)
	verdict := func(u *FuncUnit, role laneRole, off int64, callAt string, mode ...uint64) (string, string) {
		_, _, L := c.runLaneHelper(u, 0, mode...)
		if L == 0 {
			return "unknown", "no word parameter"
		}
		for g := int64(0); g < int64(L); g++ {
			it, wv, _ := c.runLaneHelper(u, g+off, mode...)
			if it.fail != "" {
				return "unknown", it.fail
			}
			var got []laneV
			if role == roleGet {
				if it.ret == nil || it.ret.bad != "" {
					return "unknown", "no tracked result"
				}
				got = it.ret.toLanes(1)
				if want := (laneV{k: lkSym, sym: int(g)}); got[0] != want {
					return "bad", fmt.Sprintf("called with position %d the result is %s, not the byte of lane %d", g+off, got[0], g)
				}
				continue
			}
			if _, inPlace := it.mem[wv]; inPlace {
				got = it.mem[wv].toLanes(L)
			} else if it.ret != nil && it.ret.bad == "" {
				got = it.ret.toLanes(L) // a pure helper returns the new word
			} else {
				return "unknown", "no tracked result"
			}
			for j := 0; j < L; j++ {
				var want []laneV // acceptable values; nil = unconstrained
				switch role {
				case roleSet:
					if int64(j) == g {
						want = []laneV{{k: lkB}}
					} else {
						want = []laneV{{k: lkSym, sym: j}}
					}
				case roleOpen:
					switch {
					case int64(j) < g:
						want = []laneV{{k: lkSym, sym: j}}
					case int64(j) > g:
						want = []laneV{{k: lkSym, sym: j - 1}}
					}
				case roleClose:
					switch {
					case int64(j) < g:
						want = []laneV{{k: lkSym, sym: j}}
					case j <= L-2:
						want = []laneV{{k: lkSym, sym: j + 1}}
					default:
						// the top lane keeps its byte or is cleared: either way it does not sort
						// below the lanes under it
						want = []laneV{{k: lkSym, sym: L - 1}, {k: lkZero}}
					}
				}
				if want == nil {
					continue
				}
				ok := false
				for _, w := range want {
					if got[j] == w {
						ok = true
					}
				}
				if !ok {
					var ws []string
					for _, w := range want {
						ws = append(ws, w.String())
					}
					return "bad", fmt.Sprintf("called with position %d%s lane %d of the word becomes %s, where the children array has %s: the key bytes and the children they label no longer line up", g+off, callAt, j, got[j], strings.Join(ws, " or "))
				}
			}
		}
		return "ok", fmt.Sprintf("lane-wise abstract interpretation for each of the %d positions it is called with (word of %d lanes): the lanes follow the children array of the calling block", L, L)
	}
	checked := map[*FuncUnit]bool{}
	check := func(u *FuncUnit, role laneRole, off int64, callPos token.Pos, mode ...uint64) {
		key := fmt.Sprintf("%s %s", u.Name, roleName[role])
		if len(mode) == 1 {
			key += fmt.Sprintf(" (mode %d)", mode[0])
		}
		checked[u] = true
		st, msg := verdict(u, role, off, " (as at "+m.pos(callPos)+")", mode...)
		switch st {
		case "ok":
			n++
			c.r.ok("R53", key, m.pos(u.Decl.Pos()), msg, props...)
		case "bad":
			n++
			c.r.bad("R53", key, m.pos(u.Decl.Pos()), msg, props...)
		default:
			undecided(key, m.pos(u.Decl.Pos()), msg)
		}
	}
	seen := map[string]bool{}
	for _, u := range c.sortedUnits() {
		if u.Body == nil {
			continue
		}
		// blocks that call a lane helper
		var visit func(list []ast.Stmt)
		visit = func(list []ast.Stmt) {
			for _, st := range list {
				ast.Inspect(st, func(x ast.Node) bool {
					if bs, ok := x.(*ast.BlockStmt); ok && ast.Node(bs) != ast.Node(st) {
						visit(bs.List)
						return false
					}
					call, ok := x.(*ast.CallExpr)
					if !ok {
						return true
					}
					cu := m.calleeUnit(call)
					role := c.laneHelperRole(cu)
					args := call.Args
					if role != roleNone && cu.Decl.Recv != nil {
						if sel, ok := ast.Unparen(call.Fun).(*ast.SelectorExpr); ok {
							args = append([]ast.Expr{sel.X}, call.Args...) // the receiver is the word
						}
					}
					if role == roleNone || len(args) < 2 {
						return true
					}
					off := int64(0)
					if role == roleOpen {
						// which way does the children array of this block move, and at which index?
						dir, gapText := c.childrenShiftIn(u, list)
						if dir == 0 {
							return true
						}
						if dir < 0 {
							role = roleClose
						}
						a := &armNorm{c: c, idx: map[string]string{}}
						pl, ok1 := a.lin(c.linLocal(u, args[1]))
						if !ok1 || (pl.base != gapText.base) {
							return true
						}
						off = pl.off - gapText.off
					}
					var mode []uint64
					if len(args) == 3 && role != roleSet {
						tv, has := m.Info.Types[args[2]]
						if !has || tv.Value == nil {
							return true // the mode is not a constant here: left to the fallback reading
						}
						if mv, exact := constant.Uint64Val(constant.ToInt(tv.Value)); exact {
							mode = []uint64{mv}
						} else if tv.Value.Kind() == constant.Bool {
							if constant.BoolVal(tv.Value) {
								mode = []uint64{1}
							} else {
								mode = []uint64{0}
							}
						}
					}
					id := fmt.Sprintf("%s/%d/%d/%v", cu.Name, role, off, mode)
					if seen[id] {
						return true
					}
					seen[id] = true
					check(cu, role, off, call.Pos(), mode...)
					return true
				})
			}
		}
		visit(u.Body.List)
	}
	// shift helpers whose calling block does not show the matching copy() on the children array
	// (the copy itself may sit in a helper): some consistent gap semantics must hold – opening or
	// closing, with the position naming the gap or the lane above it
	for _, u := range c.sortedUnits() {
		if c.laneHelperRole(u) != roleOpen || checked[u] {
			continue
		}
		used := false
		for _, cu := range c.m.Units {
			if cu.Body == nil || used {
				continue
			}
			ast.Inspect(cu.Body, func(x ast.Node) bool {
				if call, ok := x.(*ast.CallExpr); ok && m.calleeUnit(call) == u {
					used = true
				}
				return !used
			})
		}
		if !used {
			continue
		}
		key := fmt.Sprintf("%s shifts the lanes by one around a gap", u.Name)
		okAs, firstBad, allUnknown := "", "", true
		for _, role := range []laneRole{roleOpen, roleClose} {
			for _, off := range []int64{0, 1} {
				st, msg := verdict(u, role, off, "")
				switch st {
				case "ok":
					if okAs == "" {
						okAs = fmt.Sprintf("%s, position = gap%+d", roleName[role], off)
					}
					allUnknown = false
				case "bad":
					allUnknown = false
					if firstBad == "" {
						firstBad = msg
					}
				}
			}
		}
		switch {
		case okAs != "":
			n++
			c.r.ok("R53", key, m.pos(u.Decl.Pos()), "lane-wise abstract interpretation: "+okAs+" (the calling block does not show the matching copy on the children array, so the caller's position is not compared)", props...)
		case allUnknown:
			undecided(key, m.pos(u.Decl.Pos()), "not followed")
		default:
			n++
			c.r.bad("R53", key, m.pos(u.Decl.Pos()), "under no reading (opening or closing a gap, position naming the gap or the lane above it) do the lanes move like the slots of an array: e.g. "+firstBad, props...)
		}
	}
	c.r.note("R53: %d lane helpers interpreted", n)
	c.r.floor("R53", 1, "lane helpers", "C10")
}

// childrenShiftIn: the copy() on a children array in the statement list – +1 for opening a gap
// (copy(c[g+1:], c[g:])), -1 for closing one (copy(c[g:], c[g+1:])) – and the gap index g.
func (c *Ctx) childrenShiftIn(u *FuncUnit, list []ast.Stmt) (dir int, gap linForm) {
	info := c.m.Info
	a := &armNorm{c: c, idx: map[string]string{}}
	for _, st := range list {
		// the copy written as a loop (shiftloop.go)
		for _, sl := range c.shiftLoopsIn(st) {
			for _, arr := range sl.arrays {
				if strings.HasSuffix(arr, "children") && dir == 0 {
					if g, ok := a.lin(c.linLocal(u, sl.from)); ok {
						dir, gap = sl.dir, g
					}
				}
			}
		}
		ast.Inspect(st, func(x ast.Node) bool {
			call, ok := x.(*ast.CallExpr)
			if !ok || !isBuiltinCall(info, call, "copy") || len(call.Args) != 2 || dir != 0 {
				return true
			}
			d, ok1 := ast.Unparen(call.Args[0]).(*ast.SliceExpr)
			s, ok2 := ast.Unparen(call.Args[1]).(*ast.SliceExpr)
			if !ok1 || !ok2 || d.Low == nil || s.Low == nil || !strings.HasSuffix(exprText(d.X), "children") || exprText(d.X) != exprText(s.X) {
				return true
			}
			dl, okd := a.lin(c.linLocal(u, d.Low))
			sl, oks := a.lin(c.linLocal(u, s.Low))
			if !okd || !oks || dl.base != sl.base {
				return true
			}
			switch dl.off - sl.off {
			case 1:
				dir, gap = 1, sl
			case -1:
				dir, gap = -1, dl
			}
			return true
		})
	}
	return
}

// linLocal follows a single-definition local only when its definition is itself an index
// expression of the form x or x±c (loLimit := idx + 1), not a call or a load.
func (c *Ctx) linLocal(u *FuncUnit, e ast.Expr) ast.Expr {
	for i := 0; i < 4; i++ {
		id, ok := ast.Unparen(e).(*ast.Ident)
		if !ok {
			return ast.Unparen(e)
		}
		d := c.m.resolveLocal(u, id)
		if d == nil {
			return id
		}
		switch x := ast.Unparen(d).(type) {
		case *ast.Ident:
			e = x
		case *ast.BinaryExpr:
			if x.Op != token.ADD && x.Op != token.SUB {
				return id
			}
			if _, isId := ast.Unparen(x.X).(*ast.Ident); !isId {
				return id
			}
			if tv, has := c.m.Info.Types[x.Y]; !has || tv.Value == nil {
				return id
			}
			return x
		default:
			return id
		}
	}
	return ast.Unparen(e)
}
