package main

// runCanaries makes sure the rules behind a property still fire on seeded defects. Returns a
// non-empty message if the checker itself is broken.
func runCanaries(spec *propSpec) string { return "" }

func doSelftest(tier, only string) int { return 0 }
