package main

import (
	"fmt"
	"os"
	"path/filepath"
	"sort"
	"strings"
)

// A variant is a source edit applied through the loader overlay (nothing is written to /repo).
// Expect != "" : a mutant – the named rule must report a violation for property Prop.
// Expect == "" : a behaviour-preserving refactoring – no violation may appear for Prop.
type variant struct {
	ID     string
	Prop   string
	Expect string // rule expected to fire ("" = must stay silent)
	Edits  []edit
	Note   string
	Limit  string // variants only: rule whose alarm on this variant is a documented limitation (DESIGN.md §6)
}

type edit struct {
	File string
	Old  string
	New  string
	Occ  int // 0: Old must be unique; k>0: k-th occurrence; -1: all occurrences
}

func applyEdits(edits []edit) (map[string][]byte, error) {
	out := map[string][]byte{}
	for _, e := range edits {
		path := filepath.Join(repoDir, e.File)
		var src string
		if b, ok := out[path]; ok {
			src = string(b)
		} else {
			b, err := os.ReadFile(path)
			if err != nil {
				return nil, err
			}
			src = string(b)
		}
		n := strings.Count(src, e.Old)
		switch {
		case n == 0:
			return nil, fmt.Errorf("anchor not found in %s", e.File)
		case e.Occ == 0 && n != 1:
			return nil, fmt.Errorf("anchor occurs %d times in %s, expected 1", n, e.File)
		case e.Occ > n:
			return nil, fmt.Errorf("anchor occurs %d times in %s, wanted #%d", n, e.File, e.Occ)
		}
		switch {
		case e.Occ == -1:
			src = strings.ReplaceAll(src, e.Old, e.New)
		case e.Occ <= 1:
			src = strings.Replace(src, e.Old, e.New, 1)
		default:
			idx := -1
			from := 0
			for k := 0; k < e.Occ; k++ {
				i := strings.Index(src[from:], e.Old)
				idx = from + i
				from = idx + len(e.Old)
			}
			src = src[:idx] + e.New + src[idx+len(e.Old):]
		}
		out[path] = []byte(src)
	}
	return out, nil
}

// runVariant evaluates one variant; returns (passed, skipped, message).
func runVariant(v variant, known *KnownFile, tier string) (bool, bool, string) {
	spec := propTable[v.Prop]
	if v.Expect == "" {
		// a behaviour-preserving variant must be silent for EVERY property: run all rules
		all := &propSpec{ID: "*", Level: "other"}
		for r := range ruleTable {
			all.Rules = append(all.Rules, r)
		}
		sort.Strings(all.Rules)
		spec = all
	}
	if spec == nil {
		return false, true, "property not claimed"
	}
	extra, err := applyEdits(v.Edits)
	if err != nil {
		return false, true, err.Error()
	}
	obls, _, _, _, _, _, err := evaluate(spec, tier, extra)
	if err != nil {
		if v.Expect != "" {
			return false, false, "mutant does not load/type-check: " + err.Error()
		}
		return false, false, "variant does not load: " + err.Error()
	}
	var viol []*Obligation
	for _, o := range obls {
		if o.Status == Discharged {
			continue
		}
		if o.Status == Violated && known.match(v.Prop, o) != nil {
			continue
		}
		if spec.ID == "*" && o.Status == Violated {
			isKnown := false
			for _, p := range o.Props {
				if known.match(p, o) != nil {
					isKnown = true
				}
			}
			if isKnown {
				continue
			}
		}
		viol = append(viol, o)
	}
	if v.Expect == "" {
		// a variant that edits only the generated file (or only the template) is real drift for
		// C19; that report is correct and not what the variant tests
		touchesGen, touchesTmpl := false, false
		for _, e := range v.Edits {
			if e.File == tG {
				touchesGen = true
			}
			if strings.HasSuffix(e.File, ".tmpl") {
				touchesTmpl = true
			}
		}
		if touchesGen != touchesTmpl {
			var rest []*Obligation
			for _, o := range viol {
				if o.Rule != "R34" {
					rest = append(rest, o)
				}
			}
			viol = rest
		}
		if len(viol) == 0 {
			return true, false, "silent"
		}
		if v.Limit != "" {
			only := true
			for _, o := range viol {
				if o.Rule != v.Limit {
					only = false
				}
			}
			if only {
				return true, false, "documented limitation: flagged by " + v.Limit + " only (" + viol[0].Key + ")"
			}
		}
		return false, false, fmt.Sprintf("FALSE ALARM: %s %s %s: %s", viol[0].Rule, viol[0].Status, viol[0].Key, viol[0].Detail)
	}
	for _, o := range viol {
		if o.Rule == v.Expect {
			return true, false, fmt.Sprintf("flagged by %s: %s (%s)", o.Rule, o.Key, o.Pos)
		}
	}
	if len(viol) > 0 {
		// the seeded defect was detected, though by another rule than the catalogue names
		return true, false, fmt.Sprintf("flagged by %s (%s); the catalogue expected %s", viol[0].Rule, viol[0].Key, v.Expect)
	}
	return false, false, "MISSED: no violation reported"
}

func doSelftest(tier, only string) int {
	known, err := loadKnown(filepath.Join(verifDir, "known_findings.json"))
	if err != nil {
		fmt.Println(err)
		return 2
	}
	fail, skip, pass := 0, 0, 0
	for _, v := range catalogue {
		if only != "" && !strings.Contains(v.ID, only) && v.Prop != only {
			continue
		}
		ok, skipped, msg := runVariant(v, known, "quick")
		kind := "mutant "
		if v.Expect == "" {
			kind = "variant"
		}
		switch {
		case skipped:
			skip++
			fmt.Printf("SKIP  %s %-5s %-4s %s – %s\n", kind, v.ID, v.Prop, v.Note, msg)
		case ok:
			pass++
			fmt.Printf("ok    %s %-5s %-4s %s – %s\n", kind, v.ID, v.Prop, v.Note, msg)
		default:
			fail++
			fmt.Printf("FAIL  %s %-5s %-4s %s – %s\n", kind, v.ID, v.Prop, v.Note, msg)
		}
	}
	fmt.Printf("selftest: %d passed, %d failed, %d skipped\n", pass, fail, skip)
	if fail > 0 {
		return 1
	}
	return 0
}

// selfTestLog is filled by runCanaries and copied into the evidence file.
var selfTestLog []string

// runCanaries makes sure the rules behind a property still fire on seeded defects: in the quick
// tier the first mutant of the catalogue for this property, in the thorough tier every mutant and
// every behaviour-preserving variant of the property. A mutant whose anchor vanished or that no
// longer type-checks on the current tree is skipped. Returns a non-empty message if the checker
// itself is broken (a canary is not flagged, or a variant raises an alarm).
func runCanaries(spec *propSpec, tier string) string {
	known, err := loadKnown(filepath.Join(verifDir, "known_findings.json"))
	if err != nil {
		return err.Error()
	}
	selfTestLog = nil
	n := 0
	for _, v := range catalogue {
		if v.Prop != spec.ID {
			continue
		}
		if tier != "thorough" && (v.Expect == "" || n >= 1) {
			continue
		}
		ok, skipped, msg := runVariant(v, known, "quick")
		kind := "mutant"
		if v.Expect == "" {
			kind = "variant"
		}
		switch {
		case skipped || strings.Contains(msg, "does not load"):
			selfTestLog = append(selfTestLog, fmt.Sprintf("skipped %s %s (%s): %s", kind, v.ID, v.Note, msg))
		case ok:
			n++
			selfTestLog = append(selfTestLog, fmt.Sprintf("ok %s %s (%s): %s", kind, v.ID, v.Note, msg))
		default:
			return fmt.Sprintf("self-test %s %s (%s) failed: %s", kind, v.ID, v.Note, msg)
		}
	}
	return ""
}
