package main

import (
	"go/ast"
	"go/token"
	"go/types"

	"golang.org/x/tools/go/cfg"
)

type atomCond struct {
	e   ast.Expr
	val bool
}

// impliedAtoms lists the atomic conditions that hold when cond evaluates to val.
func impliedAtoms(cond ast.Expr, val bool) []atomCond {
	cond = ast.Unparen(cond)
	switch x := cond.(type) {
	case *ast.UnaryExpr:
		if x.Op == token.NOT {
			return impliedAtoms(x.X, !val)
		}
	case *ast.BinaryExpr:
		switch x.Op {
		case token.LAND:
			if val {
				return append(impliedAtoms(x.X, true), impliedAtoms(x.Y, true)...)
			}
			return nil
		case token.LOR:
			if !val {
				return append(impliedAtoms(x.X, false), impliedAtoms(x.Y, false)...)
			}
			return nil
		}
	}
	// a one-line boolean helper stands for what it returns (ref.isLeaf(), sortsBefore(a, b))
	if call, ok := cond.(*ast.CallExpr); ok && predicateExpander != nil {
		if ex := predicateExpander(call); ex != ast.Expr(call) {
			return impliedAtoms(ex, val)
		}
	}
	return []atomCond{{cond, val}}
}

// guard is an edge of the CFG together with an atomic condition that holds on it.
type guard struct {
	b    *cfg.Block
	succ int
	atom atomCond
}

func condOf(info *types.Info, b *cfg.Block) ast.Expr {
	if len(b.Succs) != 2 || len(b.Nodes) == 0 || b.Kind == cfg.KindRangeLoop {
		return nil
	}
	e, ok := b.Nodes[len(b.Nodes)-1].(ast.Expr)
	if !ok {
		return nil
	}
	if t := info.TypeOf(e); t != nil {
		if bt, ok := t.Underlying().(*types.Basic); ok && bt.Info()&types.IsBoolean != 0 {
			return e
		}
	}
	return nil
}

func guardsOf(info *types.Info, g *cfg.CFG) []guard {
	var out []guard
	for _, b := range g.Blocks {
		if !b.Live {
			continue
		}
		c := condOf(info, b)
		if c == nil {
			continue
		}
		for i, val := range []bool{true, false} {
			for _, a := range impliedAtoms(c, val) {
				out = append(out, guard{b, i, a})
			}
		}
	}
	return out
}

// edgeDominates reports whether every path from the entry to target uses edge (from,succ).
func edgeDominates(g *cfg.CFG, from *cfg.Block, succ int, target *cfg.Block) bool {
	if len(g.Blocks) == 0 {
		return false
	}
	seen := make([]bool, len(g.Blocks))
	var dfs func(b *cfg.Block) bool
	dfs = func(b *cfg.Block) bool {
		if b == target {
			return true
		}
		if seen[b.Index] {
			return false
		}
		seen[b.Index] = true
		for i, s := range b.Succs {
			if b == from && i == succ {
				continue
			}
			if dfs(s) {
				return true
			}
		}
		return false
	}
	if target == g.Blocks[0] {
		return false
	}
	return !dfs(g.Blocks[0])
}

// reachable returns the blocks reachable from start (inclusive).
func reachable(start *cfg.Block) map[*cfg.Block]bool {
	seen := map[*cfg.Block]bool{}
	var dfs func(b *cfg.Block)
	dfs = func(b *cfg.Block) {
		if seen[b] {
			return
		}
		seen[b] = true
		for _, s := range b.Succs {
			dfs(s)
		}
	}
	dfs(start)
	return seen
}

// blockOf finds the block and node index holding the CFG node that contains n.
func blockOf(g *cfg.CFG, n ast.Node) (*cfg.Block, int) {
	for _, b := range g.Blocks {
		for i, x := range b.Nodes {
			if x.Pos() <= n.Pos() && n.End() <= x.End() {
				// make sure it is not merely inside a nested literal of another node
				return b, i
			}
		}
	}
	return nil, -1
}

// assignedIn reports whether variable v is assigned in any of the blocks.
func assignedIn(info *types.Info, blocks map[*cfg.Block]bool, v *types.Var) bool {
	found := false
	for b := range blocks {
		for _, n := range b.Nodes {
			ast.Inspect(n, func(x ast.Node) bool {
				switch y := x.(type) {
				case *ast.FuncLit:
					return false
				case *ast.AssignStmt:
					for _, l := range y.Lhs {
						if id, ok := ast.Unparen(l).(*ast.Ident); ok && info.ObjectOf(id) == v {
							found = true
						}
					}
				case *ast.IncDecStmt:
					if id, ok := ast.Unparen(y.X).(*ast.Ident); ok && info.ObjectOf(id) == v {
						found = true
					}
				}
				return true
			})
		}
	}
	return found
}

// isNoReturnBlock: the block ends in panic(...) or another no-return call.
func isPanicBlock(info *types.Info, b *cfg.Block) bool {
	if len(b.Succs) != 0 || len(b.Nodes) == 0 {
		return false
	}
	if es, ok := b.Nodes[len(b.Nodes)-1].(*ast.ExprStmt); ok {
		if c, ok := es.X.(*ast.CallExpr); ok {
			return !mayReturn(info)(c)
		}
	}
	return false
}

func identVar(info *types.Info, e ast.Expr) *types.Var {
	if id, ok := ast.Unparen(e).(*ast.Ident); ok {
		v, _ := info.ObjectOf(id).(*types.Var)
		return v
	}
	return nil
}
