package main

// Constants read through read-only tables.
//
// A refactoring may move the tuning numbers of the size classes (capacity, shrink threshold, the
// kind a node grows or shrinks into) from literals in the code into a package-level table
// (sizeClasses[nodeKind16].shrinkAt, class := &sizeClasses[nodeKind4] … class.grown). The rules
// ask the type checker's record (types.Info.Types) for constant values; this pass adds the value
// for every expression that reads a field (or element) of a package-level array, slice or struct
// literal that nothing in the package writes to: no assignment whose target starts at the table,
// its address taken only to define a local pointer to one element that is itself only read.
// The expression keeps its type and gets the constant; everything else is untouched.

import (
	"go/ast"
	"go/constant"
	"go/token"
	"go/types"
)

func (m *Model) foldTableConstants(files []*ast.File) int {
	info := m.Info
	// candidate tables: package-level vars with a composite-literal initialiser
	tables := map[*types.Var]*ast.CompositeLit{}
	for _, f := range files {
		for _, d := range f.Decls {
			gd, ok := d.(*ast.GenDecl)
			if !ok || gd.Tok != token.VAR {
				continue
			}
			for _, sp := range gd.Specs {
				vs := sp.(*ast.ValueSpec)
				for i, nm := range vs.Names {
					if i >= len(vs.Values) {
						continue
					}
					if cl, ok := ast.Unparen(vs.Values[i]).(*ast.CompositeLit); ok {
						if v, ok := info.Defs[nm].(*types.Var); ok {
							switch v.Type().Underlying().(type) {
							case *types.Array, *types.Slice, *types.Struct:
								tables[v] = cl
							}
						}
					}
				}
			}
		}
	}
	if len(tables) == 0 {
		return 0
	}
	// pointers to one element: p := &T[k] (defined once, in any function)
	elemPtr := map[*types.Var]ast.Expr{} // local → the T[k] expression
	written := map[*types.Var]bool{}
	tableRoot := func(e ast.Expr) *types.Var {
		v, _ := rootVar(info, e)
		if v != nil {
			if _, ok := tables[v]; ok {
				return v
			}
		}
		return nil
	}
	for _, f := range files {
		ast.Inspect(f, func(n ast.Node) bool {
			switch x := n.(type) {
			case *ast.AssignStmt:
				for i, l := range x.Lhs {
					if t := tableRoot(l); t != nil {
						written[t] = true
					}
					if x.Tok == token.DEFINE && len(x.Lhs) == len(x.Rhs) {
						if ue, ok := ast.Unparen(x.Rhs[i]).(*ast.UnaryExpr); ok && ue.Op == token.AND {
							if t := tableRoot(ue.X); t != nil {
								if id, ok := l.(*ast.Ident); ok {
									if lv, ok := info.Defs[id].(*types.Var); ok {
										if _, dup := elemPtr[lv]; dup {
											written[t] = true
										}
										elemPtr[lv] = ue.X
										continue
									}
								}
								written[t] = true
							}
						}
					}
				}
			case *ast.IncDecStmt:
				if t := tableRoot(x.X); t != nil {
					written[t] = true
				}
			case *ast.RangeStmt:
				if x.Tok == token.ASSIGN {
					for _, l := range []ast.Expr{x.Key, x.Value} {
						if l != nil {
							if t := tableRoot(l); t != nil {
								written[t] = true
							}
						}
					}
				}
			}
			return true
		})
	}
	// every other &T… and every write through / escape of an element pointer disqualifies the table
	defined := map[ast.Expr]bool{}
	for _, e := range elemPtr {
		defined[e] = true
	}
	for _, f := range files {
		ast.Inspect(f, func(n ast.Node) bool {
			switch x := n.(type) {
			case *ast.UnaryExpr:
				if x.Op == token.AND {
					if t := tableRoot(x.X); t != nil && !defined[x.X] {
						written[t] = true
					}
				}
			case *ast.SliceExpr:
				if t := tableRoot(x.X); t != nil {
					written[t] = true // a slice of the table may be written through
				}
			case *ast.AssignStmt:
				for _, l := range x.Lhs {
					if v, through := rootVar(info, l); v != nil && through {
						if e, ok := elemPtr[v]; ok {
							written[tableRoot(e)] = true
						}
					}
					if id, ok := ast.Unparen(l).(*ast.Ident); ok && x.Tok != token.DEFINE {
						if v, _ := info.ObjectOf(id).(*types.Var); v != nil {
							if e, ok := elemPtr[v]; ok {
								written[tableRoot(e)] = true // the pointer is re-pointed: not one element any more
							}
						}
					}
				}
			case *ast.IncDecStmt:
				if v, through := rootVar(info, x.X); v != nil && through {
					if e, ok := elemPtr[v]; ok {
						written[tableRoot(e)] = true
					}
				}
			case *ast.CallExpr:
				for _, a := range x.Args {
					if id, ok := ast.Unparen(a).(*ast.Ident); ok {
						if v, _ := info.ObjectOf(id).(*types.Var); v != nil {
							if e, ok := elemPtr[v]; ok {
								written[tableRoot(e)] = true // handed on: may be written there
							}
						}
					}
				}
			}
			return true
		})
	}
	// value of an element / field expression
	var litAt func(cl *ast.CompositeLit, path ast.Expr) ast.Expr
	litAt = func(cl *ast.CompositeLit, path ast.Expr) ast.Expr { return nil }
	elementOf := func(cl *ast.CompositeLit, idx int64) ast.Expr {
		next := int64(0)
		for _, el := range cl.Elts {
			val := el
			if kv, ok := el.(*ast.KeyValueExpr); ok {
				tv, ok := info.Types[kv.Key]
				if !ok || tv.Value == nil {
					return nil
				}
				k, exact := constant.Int64Val(tv.Value)
				if !exact {
					return nil
				}
				next, val = k, kv.Value
			}
			if next == idx {
				return val
			}
			next++
		}
		return nil
	}
	fieldOf := func(cl *ast.CompositeLit, st *types.Struct, name string) ast.Expr {
		for i, el := range cl.Elts {
			if kv, ok := el.(*ast.KeyValueExpr); ok {
				if id, ok := kv.Key.(*ast.Ident); ok && id.Name == name {
					return kv.Value
				}
				continue
			}
			if i < st.NumFields() && st.Field(i).Name() == name {
				return el
			}
		}
		return nil
	}
	// resolve: the literal (or constant expression) an access path denotes
	var resolve func(e ast.Expr, depth int) ast.Expr
	resolve = func(e ast.Expr, depth int) ast.Expr {
		if depth > 6 {
			return nil
		}
		switch x := ast.Unparen(e).(type) {
		case *ast.Ident:
			v, _ := info.ObjectOf(x).(*types.Var)
			if v == nil {
				return nil
			}
			if cl, ok := tables[v]; ok && !written[v] {
				return cl
			}
			if pe, ok := elemPtr[v]; ok {
				return resolve(pe, depth+1)
			}
		case *ast.StarExpr:
			return resolve(x.X, depth+1)
		case *ast.IndexExpr:
			base, _ := resolve(x.X, depth+1).(*ast.CompositeLit)
			tv, ok := info.Types[x.Index]
			if base == nil || !ok || tv.Value == nil {
				return nil
			}
			k, exact := constant.Int64Val(tv.Value)
			if !exact {
				return nil
			}
			return elementOf(base, k)
		case *ast.SelectorExpr:
			if info.Selections[x] == nil {
				return nil
			}
			base, _ := resolve(x.X, depth+1).(*ast.CompositeLit)
			if base == nil {
				return nil
			}
			t := info.TypeOf(base)
			if t == nil {
				t = info.TypeOf(x.X)
				if p, ok := t.Underlying().(*types.Pointer); ok {
					t = p.Elem()
				}
			}
			st, ok := t.Underlying().(*types.Struct)
			if !ok {
				return nil
			}
			return fieldOf(base, st, x.Sel.Name)
		}
		return nil
	}
	_ = litAt
	m.ReadOnlyTables = map[*types.Var]bool{}
	for v := range tables {
		if !written[v] {
			m.ReadOnlyTables[v] = true
		}
	}
	n := 0
	for _, f := range files {
		ast.Inspect(f, func(nd ast.Node) bool {
			e, ok := nd.(ast.Expr)
			if !ok {
				return true
			}
			switch e.(type) {
			case *ast.SelectorExpr, *ast.IndexExpr:
			default:
				return true
			}
			tv, has := info.Types[e]
			if !has || tv.Value != nil || tv.Type == nil {
				return true
			}
			if b, isB := tv.Type.Underlying().(*types.Basic); !isB || b.Info()&(types.IsInteger|types.IsBoolean|types.IsString) == 0 {
				return true
			}
			if tableRoot(e) == nil {
				if v, _ := rootVar(info, e); v == nil || elemPtr[v] == nil {
					return true
				}
			}
			val := resolve(e, 0)
			if val == nil {
				return true
			}
			vtv, ok := info.Types[val]
			if !ok || vtv.Value == nil {
				return true
			}
			cv := vtv.Value
			if b, isB := tv.Type.Underlying().(*types.Basic); isB && b.Info()&types.IsInteger != 0 {
				cv = constant.ToInt(cv)
				if cv.Kind() != constant.Int {
					return true
				}
			}
			info.Types[e] = types.TypeAndValue{Type: tv.Type, Value: cv}
			n++
			return true
		})
	}
	return n
}
