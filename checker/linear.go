package main

// Linear integer terms over syntactic atoms and a small entailment prover (sum of at most
// maxProofDepth facts/axioms). Machine-integer overflow is not modelled.

import (
	"fmt"
	"go/ast"
	"go/constant"
	"go/token"
	"go/types"
	"sort"
	"strings"
)

// Lin is Σ t[a]·a + c. As a fact it means "… ≤ 0".
type Lin struct {
	c int64
	t map[string]int64
}

func linConst(c int64) Lin { return Lin{c: c, t: map[string]int64{}} }
func linAtom(a string) Lin { return Lin{t: map[string]int64{a: 1}} }

func (l Lin) clone() Lin {
	n := Lin{c: l.c, t: make(map[string]int64, len(l.t))}
	for k, v := range l.t {
		n.t[k] = v
	}
	return n
}
func (l Lin) add(o Lin, k int64) Lin {
	n := l.clone()
	n.c += k * o.c
	for a, v := range o.t {
		n.t[a] += k * v
		if n.t[a] == 0 {
			delete(n.t, a)
		}
	}
	return n
}
func (l Lin) scale(k int64) Lin { return linConst(0).add(l, k) }
func (l Lin) isConst() bool     { return len(l.t) == 0 }
func (l Lin) key() string {
	ks := make([]string, 0, len(l.t))
	for a := range l.t {
		ks = append(ks, a)
	}
	sort.Strings(ks)
	var b strings.Builder
	for _, a := range ks {
		fmt.Fprintf(&b, "%+d*%s ", l.t[a], a)
	}
	fmt.Fprintf(&b, "%+d", l.c)
	return b.String()
}
func (l Lin) String() string { return display(l.key()) + " <= 0" }

// atomInfo carries definitional side facts of an atom (min/max/len/unsigned).
type atomTable struct {
	side map[string][]Lin // atom → facts that always hold for it
}

func newAtomTable() *atomTable { return &atomTable{side: map[string][]Lin{}} }

func (at *atomTable) addSide(atom string, l Lin) {
	k := l.key()
	for _, x := range at.side[atom] {
		if x.key() == k {
			return
		}
	}
	at.side[atom] = append(at.side[atom], l)
}

type linearizer struct {
	info *types.Info
	cc   *canonCtx // raw canon (no alias substitution)
	at   *atomTable
}

func isIntType(t types.Type) bool {
	if t == nil {
		return false
	}
	b, ok := t.Underlying().(*types.Basic)
	return ok && b.Info()&types.IsInteger != 0
}
func isUnsigned(t types.Type) bool {
	if t == nil {
		return false
	}
	b, ok := t.Underlying().(*types.Basic)
	return ok && b.Info()&types.IsUnsigned != 0
}

// lin converts an integer expression into a linear term; anything it does not understand
// becomes an opaque atom (canonical text).
func (z *linearizer) lin(e ast.Expr) (Lin, bool) {
	e = ast.Unparen(e)
	if tv, ok := z.info.Types[e]; ok && tv.Value != nil {
		if tv.Value.Kind() == constant.Int {
			if v, ok := constant.Int64Val(tv.Value); ok {
				return linConst(v), true
			}
		}
		return Lin{}, false
	}
	t := z.info.TypeOf(e)
	if !isIntType(t) {
		return Lin{}, false
	}
	switch x := e.(type) {
	case *ast.BinaryExpr:
		a, ok1 := z.lin(x.X)
		b, ok2 := z.lin(x.Y)
		if ok1 && ok2 {
			switch x.Op {
			case token.ADD:
				return a.add(b, 1), true
			case token.SUB:
				return a.add(b, -1), true
			case token.MUL:
				if a.isConst() {
					return b.scale(a.c), true
				}
				if b.isConst() {
					return a.scale(b.c), true
				}
			}
		}
	case *ast.CallExpr:
		if tv, ok := z.info.Types[x.Fun]; ok && tv.IsType() && len(x.Args) == 1 {
			// integer conversion: identity (overflow not modelled)
			if isIntType(z.info.TypeOf(x.Args[0])) {
				return z.lin(x.Args[0])
			}
		}
		if sel, ok := ast.Unparen(x.Fun).(*ast.SelectorExpr); ok && sel.Sel.Name == "Sizeof" && len(x.Args) == 1 {
			if pk, ok := sel.X.(*ast.Ident); ok {
				if pn, ok := z.info.Uses[pk].(*types.PkgName); ok && pn.Imported().Path() == "unsafe" {
					// unsafe.Sizeof of a value of a type parameter: at least one byte when every type
					// of the type set is a number
					atom := z.cc.canon(e)
					numeric := false
					if tp, ok := types.Unalias(z.info.TypeOf(x.Args[0])).(*types.TypeParam); ok {
						numeric = true
						for _, term := range typeSetTerms(tp) {
							if b, ok := term.Underlying().(*types.Basic); !ok || b.Info()&types.IsNumeric == 0 {
								numeric = false
							}
						}
					}
					if numeric {
						z.at.addSide(atom, linConst(1).add(linAtom(atom), -1)) // 1 - atom ≤ 0
					}
					z.at.addSide(atom, linAtom(atom).scale(-1))
					return linAtom(atom), true
				}
			}
		}
		if id, ok := ast.Unparen(x.Fun).(*ast.Ident); ok {
			if _, isB := z.info.Uses[id].(*types.Builtin); isB {
				switch id.Name {
				case "len", "cap":
					atom := z.cc.canon(e)
					z.at.addSide(atom, linAtom(atom).scale(-1)) // -len ≤ 0
					return linAtom(atom), true
				case "min", "max":
					atom := z.cc.canon(e)
					nonneg := true
					for _, a := range x.Args {
						la, ok := z.lin(a)
						if !ok {
							nonneg = false
							continue
						}
						if id.Name == "min" {
							z.at.addSide(atom, linAtom(atom).add(la, -1)) // atom - a ≤ 0
						} else {
							z.at.addSide(atom, la.add(linAtom(atom), -1)) // a - atom ≤ 0
						}
						if !z.nonNeg(la) {
							nonneg = false
						}
					}
					if nonneg {
						z.at.addSide(atom, linAtom(atom).scale(-1))
					}
					return linAtom(atom), true
				}
			}
		}
	}
	atom := z.cc.canon(e)
	if isUnsigned(t) {
		z.at.addSide(atom, linAtom(atom).scale(-1))
	}
	return linAtom(atom), true
}

// nonNeg reports whether a term is trivially non-negative (non-negative constant plus
// positive multiples of atoms that have a "-a ≤ 0" side fact).
func (z *linearizer) nonNeg(l Lin) bool {
	if l.c < 0 {
		return false
	}
	for a, k := range l.t {
		if k < 0 {
			return false
		}
		ok := false
		want := linAtom(a).scale(-1).key()
		for _, s := range z.at.side[a] {
			if s.key() == want {
				ok = true
			}
		}
		if !ok {
			return false
		}
	}
	return true
}

const maxProofDepth = 7

// entails reports whether goal ≤ 0 follows from the facts (each ≤ 0) and the side facts of the
// atoms involved, by adding up to maxProofDepth of them.
func entails(goal Lin, facts []Lin, at *atomTable) bool {
	// quick refutation: every atom of the goal needs some fact bounding it in the right direction
	for a, c := range goal.t {
		found := false
		for _, f := range facts {
			if fc := f.t[a]; fc != 0 && (fc > 0) == (c > 0) {
				found = true
				break
			}
		}
		if !found && at != nil {
		sides:
			for _, fsl := range at.side {
				for _, f := range fsl {
					if fc := f.t[a]; fc != 0 && (fc > 0) == (c > 0) {
						found = true
						break sides
					}
				}
			}
		}
		if !found {
			return false
		}
	}
	failedAt := map[string]int{} // residual → largest depth budget with which it already failed
	var rec func(r Lin, depth int) bool
	rec = func(r Lin, depth int) bool {
		if r.isConst() {
			return r.c <= 0
		}
		if depth == 0 || len(r.t) > 6 {
			return false
		}
		k := r.key()
		if d, ok := failedAt[k]; ok && d >= depth {
			return false
		}
		defer func() {
			if failedAt[k] < depth {
				failedAt[k] = depth
			}
		}()
		// choose atoms deterministically
		atoms := make([]string, 0, len(r.t))
		for a := range r.t {
			atoms = append(atoms, a)
		}
		sort.Strings(atoms)
		for _, a := range atoms {
			c := r.t[a]
			try := func(f Lin) bool {
				fc := f.t[a]
				if fc == 0 || (fc > 0) != (c > 0) {
					return false
				}
				// subtract μ·f with μ = c/fc (positive); only exact division
				if c%fc != 0 {
					return false
				}
				mu := c / fc
				return rec(r.add(f, -mu), depth-1)
			}
			for _, f := range facts {
				if try(f) {
					return true
				}
			}
			if at != nil {
				for _, f := range at.side[a] {
					if try(f) {
						return true
					}
				}
			}
		}
		return false
	}
	return rec(goal, maxProofDepth)
}
