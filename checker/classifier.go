package main

// Guards through a classifier helper. A helper that answers with a small integer class computed
// by a decision list –
//
//	side := 0; if C1 { side = -1 } else if C2 { side = 1 }; return side
//	if C1 { return -1 }; if C2 { return 1 }; return 0
//
// – hides the conditions C1, C2 behind comparisons of its result (`side < 0`, `side > 0`). For every
// guard edge on such a result the classes still possible on that edge are computed (the classes
// that satisfy this comparison and every comparison of the same variable that dominates it); when
// exactly one class is left, the edge carries what that class means in the decision list: the
// negation of every earlier condition and the class's own condition, with the helper's parameters
// replaced by the arguments of the call. The rules that read guards (R13, R39, the roles of the
// scan bounds) then see `bytes.Compare(key, start) < 0` again.

import (
	"go/ast"
	"go/constant"
	"go/token"
	"go/types"

	"golang.org/x/tools/go/cfg"
)

type classEntry struct {
	val   int64
	conds []atomCond // what holds when this class is answered
}

// decisionList reads the helper as a list of classes; nil when it is not of that shape.
func (c *Ctx) decisionList(cu *FuncUnit) []classEntry {
	info := c.m.Info
	if cu == nil || cu.Lit != nil || cu.Decl == nil || cu.Body == nil {
		return nil
	}
	sig, _ := cu.Obj.Type().(*types.Signature)
	if sig == nil || sig.Results().Len() != 1 || !isIntType(sig.Results().At(0).Type()) {
		return nil
	}
	constOf := func(e ast.Expr) (int64, bool) {
		tv, ok := info.Types[e]
		if !ok || tv.Value == nil || tv.Value.Kind() != constant.Int {
			return 0, false
		}
		return constant.Int64Val(tv.Value)
	}
	var out []classEntry
	var prior []atomCond
	neg := func(list []atomCond) []atomCond {
		var o []atomCond
		for _, a := range list {
			o = append(o, a)
		}
		return o
	}
	body := cu.Body.List
	// shape A: v := K0; if-chain assigning constants; return v
	if len(body) == 3 {
		as, ok1 := body[0].(*ast.AssignStmt)
		ifs, ok2 := body[1].(*ast.IfStmt)
		rs, ok3 := body[2].(*ast.ReturnStmt)
		if ok1 && ok2 && ok3 && len(as.Lhs) == 1 && len(as.Rhs) == 1 && len(rs.Results) == 1 {
			v := identVar(info, as.Lhs[0])
			k0, okK := constOf(as.Rhs[0])
			if v != nil && okK && identVar(info, rs.Results[0]) == v {
				for cur := ifs; cur != nil; {
					if cur.Init != nil || len(cur.Body.List) != 1 {
						return nil
					}
					set, isAs := cur.Body.List[0].(*ast.AssignStmt)
					if !isAs || len(set.Lhs) != 1 || len(set.Rhs) != 1 || set.Tok != token.ASSIGN || identVar(info, set.Lhs[0]) != v {
						return nil
					}
					k, okC := constOf(set.Rhs[0])
					if !okC {
						return nil
					}
					out = append(out, classEntry{k, append(neg(prior), atomCond{cur.Cond, true})})
					prior = append(prior, atomCond{cur.Cond, false})
					switch e := cur.Else.(type) {
					case nil:
						cur = nil
					case *ast.IfStmt:
						cur = e
					default:
						return nil
					}
				}
				out = append(out, classEntry{k0, neg(prior)})
				return out
			}
		}
	}
	// shape B: if C { return K } …; return K0
	for i, st := range body {
		if i == len(body)-1 {
			rs, ok := st.(*ast.ReturnStmt)
			if !ok || len(rs.Results) != 1 {
				return nil
			}
			k0, okK := constOf(rs.Results[0])
			if !okK {
				return nil
			}
			out = append(out, classEntry{k0, neg(prior)})
			break
		}
		is, ok := st.(*ast.IfStmt)
		if !ok || is.Init != nil || is.Else != nil || len(is.Body.List) != 1 {
			return nil
		}
		rs, ok := is.Body.List[0].(*ast.ReturnStmt)
		if !ok || len(rs.Results) != 1 {
			return nil
		}
		k, okK := constOf(rs.Results[0])
		if !okK {
			return nil
		}
		out = append(out, classEntry{k, append(neg(prior), atomCond{is.Cond, true})})
		prior = append(prior, atomCond{is.Cond, false})
	}
	if len(out) < 2 {
		return nil
	}
	return out
}

// classifierGuards returns the guards of g plus, for the edges on which the result of a
// classifier helper is narrowed to one class, the conditions of that class.
func (c *Ctx) classifierGuards(u *FuncUnit, g *cfg.CFG) []guard {
	info := c.m.Info
	guards := guardsOf(info, g)
	type cmp struct {
		gd guard
		v  *types.Var
		op token.Token
		k  int64
	}
	var cmps []cmp
	for _, gd := range guards {
		be, ok := ast.Unparen(gd.atom.e).(*ast.BinaryExpr)
		if !ok {
			continue
		}
		x, y, op := be.X, be.Y, be.Op
		flip := map[token.Token]token.Token{token.LSS: token.GTR, token.GTR: token.LSS, token.LEQ: token.GEQ, token.GEQ: token.LEQ, token.EQL: token.EQL, token.NEQ: token.NEQ}
		if _, known := flip[op]; !known {
			continue
		}
		if tv, has := info.Types[x]; has && tv.Value != nil {
			x, y, op = y, x, flip[op]
		}
		tv, has := info.Types[y]
		if !has || tv.Value == nil || tv.Value.Kind() != constant.Int {
			continue
		}
		k, _ := constant.Int64Val(tv.Value)
		v := identVar(info, ast.Unparen(x))
		if v == nil {
			continue
		}
		cmps = append(cmps, cmp{gd, v, op, k})
	}
	holds := func(op token.Token, val bool, x, k int64) bool {
		var r bool
		switch op {
		case token.LSS:
			r = x < k
		case token.LEQ:
			r = x <= k
		case token.GTR:
			r = x > k
		case token.GEQ:
			r = x >= k
		case token.EQL:
			r = x == k
		default:
			r = x != k
		}
		return r == val
	}
	lists := map[*types.Var][]classEntry{}
	calls := map[*types.Var]*ast.CallExpr{}
	for _, cm := range cmps {
		if _, done := lists[cm.v]; done {
			continue
		}
		lists[cm.v] = nil
		dc := c.defCallOf(u, cm.v)
		if dc == nil || isConversion(info, dc) {
			continue
		}
		cu := c.m.calleeUnit(dc)
		if dl := c.decisionList(cu); dl != nil {
			lists[cm.v] = dl
			calls[cm.v] = dc
		}
	}
	for _, cm := range cmps {
		dl := lists[cm.v]
		if dl == nil {
			continue
		}
		var left []classEntry
		for _, ce := range dl {
			ok := holds(cm.op, cm.gd.atom.val, ce.val, cm.k)
			for _, other := range cmps {
				if !ok || other.v != cm.v || (other.gd.b == cm.gd.b && other.gd.succ == cm.gd.succ) {
					continue
				}
				if edgeDominates(g, other.gd.b, other.gd.succ, cm.gd.b) && !holds(other.op, other.gd.atom.val, ce.val, other.k) {
					ok = false
				}
			}
			if ok {
				left = append(left, ce)
			}
		}
		if len(left) != 1 {
			continue
		}
		// the class's conditions, with the arguments of the call in place of the parameters
		call := calls[cm.v]
		cu := c.m.calleeUnit(call)
		sp := &specialiser{c: c, info: info, flags: map[*types.Var]bool{}, subst: map[*types.Var]ast.Expr{}, closures: map[*types.Var]*simpleClosure{}, scope: cu.Body, phase: 2}
		i := 0
		okBind := true
		for _, f := range cu.Decl.Type.Params.List {
			for _, nm := range f.Names {
				pv, _ := info.Defs[nm].(*types.Var)
				if pv == nil || i >= len(call.Args) || assignedAnywhere(info, cu.Body, pv) {
					okBind = false
				} else {
					sp.subst[pv] = parenIfBinary(sp, call.Args[i])
				}
				i++
			}
		}
		if !okBind {
			continue
		}
		for _, a := range left[0].conds {
			for _, at := range impliedAtoms(sp.expr(a.e), a.val) {
				guards = append(guards, guard{cm.gd.b, cm.gd.succ, at})
			}
		}
	}
	return guards
}
