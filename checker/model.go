package main

// Repository model (§3.2 of DESIGN.md): the slots of every rule are filled from the code.

import (
	"fmt"
	"go/ast"
	"go/constant"
	"go/token"
	"go/types"
	"sort"
	"strings"

	"golang.org/x/tools/go/cfg"
)

type KindInfo struct {
	Name   string       // nodeKind4 …
	Value  int64        // constant value
	Struct *types.Named // node4 …
	Cap    int64        // len(children)
}

type TreeKind struct {
	Name       string
	Named      *types.Named
	Leaf       *types.Named // leaf layout stored by Insert
	CodecField string       // field holding the key codec
	CodecType  types.Type
	File       string // file declaring the type
	Methods    map[string]*FuncUnit
	Generated  bool // declared in the generated file
}

// FuncUnit is one function body: a declared function/method or a function literal.
type FuncUnit struct {
	Name   string // alphaSortedTree.Search, rangeScan, rangeScan$1 …
	Decl   *ast.FuncDecl
	Lit    *ast.FuncLit
	Parent *FuncUnit // enclosing unit for literals
	Body   *ast.BlockStmt
	Type   *ast.FuncType
	Recv   string // receiver base type name ("" for functions)
	Obj    *types.Func
	cfg    *cfg.CFG
	flow   *Flow
}

type Model struct {
	TableConsts    int                 // expressions given a constant value by foldTableConstants
	ReadOnlyTables map[*types.Var]bool // package-level composite-literal variables nothing writes to
	kindConsts     map[int64]ast.Expr
	L              *Loaded
	Info           *types.Info
	Pkg            *types.Package

	NodeRef   *types.Named
	KindType  *types.Named
	Header    *types.Named // embedded header struct of the inner nodes
	HeaderFld []string
	Kinds     []KindInfo // inner kinds in declaration order
	LeafKind  KindInfo   // Name/Value only
	KindName  map[int64]string
	LeafTypes []*types.Named // union terms of the leaf constraint
	PoolVar   *types.Var

	TreeIface      *types.Named
	Trees          []*TreeKind
	Units          []*FuncUnit
	ByName         map[string]*FuncUnit
	ByObj          map[*types.Func]*FuncUnit
	LitUnit        map[*ast.FuncLit]*FuncUnit
	NoBody         map[*types.Func]*ast.FuncDecl // prototypes implemented in assembly
	LitOfVar       map[*types.Var]*FuncUnit      // local variable bound once to a function literal
	LeafConstraint *types.Named

	MaxPrefixLen int64

	defsMemo  map[ast.Node]map[*types.Var]*defInfo
	leafConst *ast.Ident
	ptMemo    map[*FuncUnit]int
}

func (m *Model) pos(p token.Pos) string { return m.L.position(p) }

func namedOf(t types.Type) *types.Named {
	for {
		switch x := t.(type) {
		case *types.Pointer:
			t = x.Elem()
		case *types.Named:
			return x
		case *types.Alias:
			t = types.Unalias(x)
		default:
			return nil
		}
	}
}

func buildModel(l *Loaded) (*Model, error) {
	m := &Model{L: l, Info: l.Art.TypesInfo, Pkg: l.Art.Types, NoBody: map[*types.Func]*ast.FuncDecl{},
		KindName: map[int64]string{}, ByName: map[string]*FuncUnit{}, ByObj: map[*types.Func]*FuncUnit{}, LitUnit: map[*ast.FuncLit]*FuncUnit{}}
	scope := m.Pkg.Scope()
	// constants read through read-only tables become constants of the type checker's record
	// (tableconst.go) before anything looks at it
	m.TableConsts = m.foldTableConstants(l.Art.Syntax)

	// --- function units
	for _, f := range l.artFiles() {
		for _, d := range f.Decls {
			fd, ok := d.(*ast.FuncDecl)
			if ok && fd.Body == nil {
				if o, _ := m.Info.Defs[fd.Name].(*types.Func); o != nil {
					m.NoBody[o] = fd
				}
			}
			if !ok || fd.Body == nil {
				continue
			}
			u := &FuncUnit{Decl: fd, Body: fd.Body, Type: fd.Type}
			u.Obj, _ = m.Info.Defs[fd.Name].(*types.Func)
			name := fd.Name.Name
			if fd.Recv != nil && len(fd.Recv.List) == 1 {
				u.Recv = recvBaseName(fd.Recv.List[0].Type)
				name = u.Recv + "." + name
			}
			u.Name = name
			m.addUnit(u)
		}
	}

	// --- Tree interface and tree kinds
	if o := scope.Lookup("Tree"); o != nil {
		m.TreeIface = namedOf(o.Type())
	}
	if m.TreeIface == nil {
		return nil, fmt.Errorf("model: interface Tree not found")
	}
	iface, _ := m.TreeIface.Underlying().(*types.Interface)
	if iface == nil || iface.NumMethods() == 0 {
		return nil, fmt.Errorf("model: Tree is not an interface with methods")
	}
	for _, name := range scope.Names() {
		tn, ok := scope.Lookup(name).(*types.TypeName)
		if !ok {
			continue
		}
		named := namedOf(tn.Type())
		if named == nil {
			continue
		}
		if _, ok := named.Underlying().(*types.Struct); !ok {
			continue
		}
		all := true
		for i := 0; i < iface.NumMethods(); i++ {
			if m.ByName[name+"."+iface.Method(i).Name()] == nil {
				all = false
				break
			}
		}
		if !all {
			continue
		}
		tk := &TreeKind{Name: name, Named: named, Methods: map[string]*FuncUnit{}, File: l.fileOf(tn.Pos())}
		for _, u := range m.Units {
			if u.Recv == name && u.Lit == nil {
				tk.Methods[u.Decl.Name.Name] = u
			}
		}
		st := named.Underlying().(*types.Struct)
		for i := 0; i < st.NumFields(); i++ {
			f := st.Field(i)
			if fn := namedOf(f.Type()); fn != nil && fn.Obj().Name() == "nodeRef" {
				m.NodeRef = fn
			} else if fn != nil && isCodecType(fn) {
				tk.CodecField, tk.CodecType = f.Name(), f.Type()
			}
		}
		m.Trees = append(m.Trees, tk)
	}
	if len(m.Trees) == 0 {
		return nil, fmt.Errorf("model: no type implementing Tree found")
	}
	sort.Slice(m.Trees, func(i, j int) bool { return m.Trees[i].Name < m.Trees[j].Name })
	if m.NodeRef == nil {
		return nil, fmt.Errorf("model: reference type (nodeRef) not found as a tree field")
	}

	// --- node kinds: type of the tag field
	rs, _ := m.NodeRef.Underlying().(*types.Struct)
	for i := 0; rs != nil && i < rs.NumFields(); i++ {
		if rs.Field(i).Name() == "tag" {
			m.KindType = namedOf(rs.Field(i).Type())
		}
	}
	if m.KindType == nil {
		return nil, fmt.Errorf("model: nodeRef.tag / its named type not found")
	}
	type kc struct {
		name string
		val  int64
		pos  token.Pos
	}
	var kcs []kc
	for _, name := range scope.Names() {
		c, ok := scope.Lookup(name).(*types.Const)
		if !ok || !types.Identical(c.Type(), m.KindType) {
			continue
		}
		v, ok := constant.Int64Val(c.Val())
		if !ok {
			continue
		}
		kcs = append(kcs, kc{name, v, c.Pos()})
	}
	sort.Slice(kcs, func(i, j int) bool { return kcs[i].val < kcs[j].val })
	// pools: nodePools[i].New returns new(T_i)
	poolTypes := map[int64]*types.Named{}
	for _, f := range l.artFiles() {
		for _, d := range f.Decls {
			gd, ok := d.(*ast.GenDecl)
			if !ok || gd.Tok != token.VAR {
				continue
			}
			for _, sp := range gd.Specs {
				vs := sp.(*ast.ValueSpec)
				for i, nm := range vs.Names {
					v, _ := m.Info.Defs[nm].(*types.Var)
					if v == nil {
						continue
					}
					// the pool table: a package-level array/slice whose elements carry a constructor
					// func returning new(<node layout>); its element type is checked by R30
					isPool := strings.Contains(v.Type().String(), "sync.Pool")
					if !isPool && i < len(vs.Values) {
						if cl, ok := vs.Values[i].(*ast.CompositeLit); ok {
							for _, el := range cl.Elts {
								if poolNewType(m.Info, el) != nil {
									isPool = true
								}
							}
						}
					}
					if !isPool {
						continue
					}
					// several pools may exist (scratch stacks, …): the node pool table is the one
					// whose constructors return the most distinct struct layouts
					cand := map[int64]*types.Named{}
					if i < len(vs.Values) {
						if cl, ok := vs.Values[i].(*ast.CompositeLit); ok {
							idx := int64(0)
							for _, el := range cl.Elts {
								e := el
								if kv, ok := el.(*ast.KeyValueExpr); ok {
									if tv, ok := m.Info.Types[kv.Key]; ok && tv.Value != nil {
										idx, _ = constant.Int64Val(tv.Value)
									}
									e = kv.Value
								}
								if t := poolNewType(m.Info, e); t != nil {
									if _, isStruct := t.Underlying().(*types.Struct); isStruct {
										cand[idx] = t
									}
								}
								idx++
							}
						}
					}
					if m.PoolVar == nil || len(cand) > len(poolTypes) {
						m.PoolVar = v
						poolTypes = cand
					}
				}
			}
		}
	}
	// fallback when the pool table is not in the sync.Pool{New: …} form: take the kind → layout
	// mapping from the casts under `case <kind>:` in the dispatching switches, and the pool table
	// from the package-level variable indexed by a kind constant in X[K].Get()/Put()
	if len(poolTypes) < 2 {
		votes := map[int64]map[*types.Named]int{}
		for _, u := range m.Units {
			ast.Inspect(u.Body, func(n ast.Node) bool {
				cc, ok := n.(*ast.CaseClause)
				if !ok || len(cc.List) != 1 {
					return true
				}
				tv, ok := m.Info.Types[cc.List[0]]
				if !ok || tv.Value == nil || !types.Identical(tv.Type, m.KindType) {
					return true
				}
				kv, _ := constant.Int64Val(tv.Value)
				for _, st := range cc.Body {
					ast.Inspect(st, func(z ast.Node) bool {
						if call, ok := z.(*ast.CallExpr); ok && isConversion(m.Info, call) && len(call.Args) == 1 {
							if p, ok := m.Info.TypeOf(call).Underlying().(*types.Pointer); ok {
								if nt := namedOf(p.Elem()); nt != nil {
									if _, isStruct := nt.Underlying().(*types.Struct); isStruct {
										if votes[kv] == nil {
											votes[kv] = map[*types.Named]int{}
										}
										votes[kv][nt]++
									}
								}
							}
						}
						return true
					})
				}
				return true
			})
		}
		for kv, vs := range votes {
			var best *types.Named
			for nt, c := range vs {
				if best == nil || c > vs[best] {
					best = nt
				}
			}
			if best != nil && vs[best] >= 3 {
				poolTypes[kv] = best
			}
		}
	}
	if m.PoolVar == nil {
		for _, u := range m.Units {
			ast.Inspect(u.Body, func(n ast.Node) bool {
				call, ok := n.(*ast.CallExpr)
				if !ok {
					return true
				}
				sel, ok := ast.Unparen(call.Fun).(*ast.SelectorExpr)
				if !ok || (sel.Sel.Name != "Get" && sel.Sel.Name != "Put") {
					return true
				}
				ix, ok := ast.Unparen(sel.X).(*ast.IndexExpr)
				if !ok {
					return true
				}
				if tv, ok := m.Info.Types[ix.Index]; !ok || tv.Value == nil || !types.Identical(tv.Type, m.KindType) {
					return true
				}
				if id, ok := ast.Unparen(ix.X).(*ast.Ident); ok {
					if v, _ := m.Info.ObjectOf(id).(*types.Var); v != nil && v.Parent() == scope {
						m.PoolVar = v
					}
				}
				return true
			})
		}
	}
	for _, k := range kcs {
		m.KindName[k.val] = k.name
		if t := poolTypes[k.val]; t != nil {
			ki := KindInfo{Name: k.name, Value: k.val, Struct: t}
			if st, ok := t.Underlying().(*types.Struct); ok {
				for i := 0; i < st.NumFields(); i++ {
					if st.Field(i).Name() == "children" {
						if a, ok := st.Field(i).Type().Underlying().(*types.Array); ok {
							ki.Cap = a.Len()
						}
					}
					if st.Field(i).Embedded() {
						if h := namedOf(st.Field(i).Type()); h != nil {
							m.Header = h
						}
					}
				}
			}
			m.Kinds = append(m.Kinds, ki)
		} else {
			m.LeafKind = KindInfo{Name: k.name, Value: k.val}
		}
	}
	if len(m.Kinds) < 2 || m.LeafKind.Name == "" || m.Header == nil {
		return nil, fmt.Errorf("model: node kinds not recovered (inner=%d leaf=%q header=%v)", len(m.Kinds), m.LeafKind.Name, m.Header != nil)
	}
	if hs, ok := m.Header.Underlying().(*types.Struct); ok {
		for i := 0; i < hs.NumFields(); i++ {
			m.HeaderFld = append(m.HeaderFld, hs.Field(i).Name())
		}
	}
	// leaf constraint terms
	if o := scope.Lookup("nodeLeaf"); o != nil {
		m.LeafConstraint = namedOf(o.Type())
		if it, ok := o.Type().Underlying().(*types.Interface); ok {
			for i := 0; i < it.NumEmbeddeds(); i++ {
				if u, ok := it.EmbeddedType(i).(*types.Union); ok {
					for j := 0; j < u.Len(); j++ {
						if n := namedOf(u.Term(j).Type()); n != nil {
							m.LeafTypes = append(m.LeafTypes, n)
						}
					}
				}
			}
		}
	}
	if len(m.LeafTypes) == 0 {
		// no constraint listing the leaf layouts: they are the struct types whose address is stored
		// behind a reference tagged as a leaf (unsafe.Pointer(&T{…}), directly or in a function
		// literal the operand calls)
		seen := map[*types.TypeName]bool{}
		addFrom := func(e ast.Node) {
			ast.Inspect(e, func(z ast.Node) bool {
				ue, ok := z.(*ast.UnaryExpr)
				if !ok || ue.Op != token.AND {
					return true
				}
				if cl, ok := ast.Unparen(ue.X).(*ast.CompositeLit); ok {
					if n := namedOf(m.Info.TypeOf(cl)); n != nil {
						if _, isStruct := n.Underlying().(*types.Struct); isStruct && n.Obj().Pkg() == m.Pkg && !seen[n.Origin().Obj()] {
							seen[n.Origin().Obj()] = true
							m.LeafTypes = append(m.LeafTypes, n.Origin())
						}
					}
				}
				return true
			})
		}
		for _, f := range l.artFiles() {
			ast.Inspect(f, func(n ast.Node) bool {
				cl, ok := n.(*ast.CompositeLit)
				if !ok || m.NodeRef == nil {
					return true
				}
				if nn := namedOf(m.Info.TypeOf(cl)); nn == nil || nn.Obj() != m.NodeRef.Obj() {
					return true
				}
				isLeaf := false
				var ptr ast.Expr
				for _, el := range cl.Elts {
					kv, ok := el.(*ast.KeyValueExpr)
					if !ok {
						continue
					}
					if id, ok := kv.Key.(*ast.Ident); ok {
						switch id.Name {
						case "tag":
							if tv, has := m.Info.Types[kv.Value]; has && tv.Value != nil {
								if v, exact := constant.Int64Val(tv.Value); exact && v == m.LeafKind.Value {
									isLeaf = true
								}
							}
						case "pointer":
							ptr = kv.Value
						}
					}
				}
				if !isLeaf || ptr == nil {
					return true
				}
				addFrom(ptr)
				// createLeaf(): the literal bound to the called variable, anywhere in the file
				if call, ok := ast.Unparen(ptr).(*ast.CallExpr); ok {
					if id, ok := ast.Unparen(call.Fun).(*ast.Ident); ok {
						if v, _ := m.Info.ObjectOf(id).(*types.Var); v != nil {
							ast.Inspect(f, func(z ast.Node) bool {
								if as, ok := z.(*ast.AssignStmt); ok && len(as.Lhs) == 1 && len(as.Rhs) == 1 {
									if lid, ok := as.Lhs[0].(*ast.Ident); ok && m.Info.ObjectOf(lid) == v {
										addFrom(as.Rhs[0])
									}
								}
								return true
							})
						}
					}
				}
				return true
			})
		}
	}
	if len(m.LeafTypes) == 0 {
		return nil, fmt.Errorf("model: leaf layouts not found (no nodeLeaf constraint and no struct stored behind a leaf-tagged reference)")
	}
	if c, ok := scope.Lookup("maxPrefixLen").(*types.Const); ok {
		m.MaxPrefixLen, _ = constant.Int64Val(c.Val())
	}
	// local closures bound once to a variable
	m.LitOfVar = map[*types.Var]*FuncUnit{}
	counts := map[*types.Var]int{}
	for _, u := range m.Units {
		if u.Lit != nil {
			continue // nested literals are visited through their declaration
		}
		ast.Inspect(u.Body, func(n ast.Node) bool {
			as, ok := n.(*ast.AssignStmt)
			if !ok {
				return true
			}
			for i, lh := range as.Lhs {
				id, ok := lh.(*ast.Ident)
				if !ok {
					continue
				}
				v, _ := m.Info.ObjectOf(id).(*types.Var)
				if v == nil {
					continue
				}
				counts[v]++
				if len(as.Lhs) == len(as.Rhs) {
					if fl, ok := ast.Unparen(as.Rhs[i]).(*ast.FuncLit); ok {
						m.LitOfVar[v] = m.LitUnit[fl]
					}
				}
			}
			return true
		})
	}
	for v := range m.LitOfVar {
		if counts[v] != 1 {
			delete(m.LitOfVar, v)
		}
	}
	// leaf type per tree kind: composite literal inside Insert
	for _, tk := range m.Trees {
		ins := tk.Methods["Insert"]
		if ins == nil {
			continue
		}
		ast.Inspect(ins.Body, func(n ast.Node) bool {
			if cl, ok := n.(*ast.CompositeLit); ok {
				if t := namedOf(m.Info.TypeOf(cl)); t != nil && m.isLeafType(t) {
					tk.Leaf = t.Origin()
				}
			}
			return true
		})
		tk.Generated = tk.File == "trees.go"
	}
	return m, nil
}

func (m *Model) isLeafType(t *types.Named) bool {
	for _, lt := range m.LeafTypes {
		if lt.Origin().Obj() == t.Origin().Obj() {
			return true
		}
	}
	return false
}

func (m *Model) kindByValue(v int64) *KindInfo {
	for i := range m.Kinds {
		if m.Kinds[i].Value == v {
			return &m.Kinds[i]
		}
	}
	return nil
}

func (m *Model) kindByStruct(t types.Type) *KindInfo {
	n := namedOf(t)
	if n == nil {
		return nil
	}
	for i := range m.Kinds {
		if m.Kinds[i].Struct.Obj() == n.Obj() {
			return &m.Kinds[i]
		}
	}
	return nil
}

func isCodecType(n *types.Named) bool {
	// a codec has Transform and Restore
	has := func(name string) bool {
		for i := 0; i < n.NumMethods(); i++ {
			if n.Method(i).Name() == name {
				return true
			}
		}
		if it, ok := n.Underlying().(*types.Interface); ok {
			for i := 0; i < it.NumMethods(); i++ {
				if it.Method(i).Name() == name {
					return true
				}
			}
		}
		return false
	}
	return has("Transform") && has("Restore")
}

func poolNewType(info *types.Info, e ast.Expr) *types.Named {
	var out *types.Named
	ast.Inspect(e, func(n ast.Node) bool {
		if c, ok := n.(*ast.CallExpr); ok {
			if id, ok := c.Fun.(*ast.Ident); ok && id.Name == "new" && len(c.Args) == 1 {
				out = namedOf(info.TypeOf(c.Args[0]))
			}
		}
		if cl, ok := n.(*ast.UnaryExpr); ok && cl.Op == token.AND {
			if c, ok := cl.X.(*ast.CompositeLit); ok {
				out = namedOf(info.TypeOf(c))
			}
		}
		return true
	})
	return out
}

func recvBaseName(e ast.Expr) string {
	for {
		switch x := e.(type) {
		case *ast.StarExpr:
			e = x.X
		case *ast.IndexExpr:
			e = x.X
		case *ast.IndexListExpr:
			e = x.X
		case *ast.ParenExpr:
			e = x.X
		case *ast.Ident:
			return x.Name
		default:
			return "?"
		}
	}
}

func (m *Model) addUnit(u *FuncUnit) {
	m.Units = append(m.Units, u)
	m.ByName[u.Name] = u
	if u.Obj != nil {
		m.ByObj[u.Obj] = u
	}
	// nested literals, numbered in source order
	n := 0
	var walk func(node ast.Node, parent *FuncUnit)
	walk = func(node ast.Node, parent *FuncUnit) {
		ast.Inspect(node, func(x ast.Node) bool {
			if fl, ok := x.(*ast.FuncLit); ok {
				n++
				lu := &FuncUnit{Name: fmt.Sprintf("%s$%d", u.Name, n), Decl: u.Decl, Lit: fl, Parent: parent, Body: fl.Body, Type: fl.Type, Recv: u.Recv}
				m.Units = append(m.Units, lu)
				m.ByName[lu.Name] = lu
				m.LitUnit[fl] = lu
				walk(fl.Body, lu)
				return false
			}
			return true
		})
	}
	walk(u.Body, u)
}

// unitsOf returns the unit and all literal units nested in it.
func (m *Model) unitsOf(u *FuncUnit) []*FuncUnit {
	out := []*FuncUnit{u}
	for _, x := range m.Units {
		for p := x.Parent; p != nil; p = p.Parent {
			if p == u {
				out = append(out, x)
				break
			}
		}
	}
	return out
}

// staticCallee resolves a call expression to a function object of the library (generic
// instantiations are mapped to their origin).
func (m *Model) staticCallee(call *ast.CallExpr) *types.Func {
	fun := ast.Unparen(call.Fun)
	switch x := fun.(type) {
	case *ast.IndexExpr:
		fun = ast.Unparen(x.X)
	case *ast.IndexListExpr:
		fun = ast.Unparen(x.X)
	}
	var obj types.Object
	switch x := fun.(type) {
	case *ast.Ident:
		obj = m.Info.Uses[x]
	case *ast.SelectorExpr:
		if sel := m.Info.Selections[x]; sel != nil {
			obj = sel.Obj()
		} else {
			obj = m.Info.Uses[x.Sel]
		}
	}
	if f, ok := obj.(*types.Func); ok {
		return f.Origin()
	}
	return nil
}

func (m *Model) calleeName(call *ast.CallExpr) string {
	if f := m.staticCallee(call); f != nil {
		if u := m.ByObj[f]; u != nil {
			return u.Name
		}
		if f.Pkg() == m.Pkg {
			if sig, ok := f.Type().(*types.Signature); ok && sig.Recv() != nil {
				if n := namedOf(sig.Recv().Type()); n != nil {
					return n.Obj().Name() + "." + f.Name()
				}
			}
			return f.Name()
		}
		if f.Pkg() != nil {
			if sig, ok := f.Type().(*types.Signature); ok && sig.Recv() != nil {
				if n := namedOf(sig.Recv().Type()); n != nil {
					return f.Pkg().Path() + "." + n.Obj().Name() + "." + f.Name()
				}
			}
			return f.Pkg().Path() + "." + f.Name()
		}
		return f.Name()
	}
	if id, ok := ast.Unparen(call.Fun).(*ast.Ident); ok {
		if _, isB := m.Info.Uses[id].(*types.Builtin); isB {
			return "builtin." + id.Name
		}
	}
	if sel, ok := ast.Unparen(call.Fun).(*ast.SelectorExpr); ok {
		if _, isB := m.Info.Uses[sel.Sel].(*types.Builtin); isB {
			return "unsafe." + sel.Sel.Name
		}
	}
	return ""
}

func isBuiltinCall(info *types.Info, call *ast.CallExpr, name string) bool {
	id, ok := ast.Unparen(call.Fun).(*ast.Ident)
	if !ok || id.Name != name {
		return false
	}
	_, isB := info.Uses[id].(*types.Builtin)
	return isB
}

func isConversion(info *types.Info, call *ast.CallExpr) bool {
	tv, ok := info.Types[call.Fun]
	return ok && tv.IsType()
}
