package main

// R56 WRAPCOUNT (C15, C06, C01, C05, C10, C11, C12, C17) – the fan-out counter of a node that may
// be of the widest size class is never asked whether the node is empty. The counter is as wide as a
// byte; a node of the widest class with every slot taken has as many children as the counter has
// values, and the counter of such a node reads 0. A test that tells 0 from the largest count it can
// show – `childrenLen == 0`, `> 0`, `!= 0`, `< k` – on the shared header (any size class) or on the
// widest layout takes the full node for an empty one: a lookup that declines early, a removal that
// is skipped, a scan that stops. Tests that treat 0 and the largest count alike (the shrink
// thresholds `== 37`, `== 12`, the collapse test `== 1` of a typed small node) are not concerned.

import (
	"fmt"
	"go/ast"
	"go/constant"
	"go/token"
	"go/types"
)

func ruleR56(c *Ctx) {
	m := c.m
	info := m.Info
	props := []string{"C15", "C06", "C01", "C05", "C10", "C11", "C12", "C17"}
	// the widest class: as many slots as the counter has values
	var widest *KindInfo
	for i := range m.Kinds {
		k := &m.Kinds[i]
		if widest == nil || k.Cap > widest.Cap {
			widest = k
		}
	}
	if widest == nil || m.Header == nil {
		c.r.undecided("R56", "fan-out counter", "node.go", "node kinds not recovered", props...)
		return
	}
	// the counter: the field of the header the size classes increment in addChild – by name, as
	// R43/R41 know it
	var counter *types.Var
	if hs, ok := m.Header.Underlying().(*types.Struct); ok {
		for i := 0; i < hs.NumFields(); i++ {
			if hs.Field(i).Name() == "childrenLen" {
				counter = hs.Field(i)
			}
		}
	}
	if counter == nil {
		c.r.undecided("R56", "fan-out counter", "node.go", "the header has no childrenLen field", props...)
		return
	}
	bits := 8 * c.L.Sizes.Sizeof(counter.Type())
	if bits >= 63 || int64(1)<<uint(bits) > widest.Cap {
		c.r.ok("R56", "fan-out counter holds the count of a full node of the widest class", m.pos(counter.Pos()), fmt.Sprintf("%d-bit counter, %d slots", bits, widest.Cap), props...)
		return
	}
	top := int64(1)<<uint(bits) - 1 // the largest count the counter can show
	n := 0
	for _, u := range c.sortedUnits() {
		if u.Body == nil {
			continue
		}
		ast.Inspect(u.Body, func(x ast.Node) bool {
			if lit, ok := x.(*ast.FuncLit); ok && ast.Node(lit) != ast.Node(u.Lit) {
				return false
			}
			be, ok := x.(*ast.BinaryExpr)
			if !ok {
				return true
			}
			switch be.Op {
			case token.EQL, token.NEQ, token.LSS, token.LEQ, token.GTR, token.GEQ:
			default:
				return true
			}
			for _, pair := range [][2]ast.Expr{{be.X, be.Y}, {be.Y, be.X}} {
				sel := counterSelector(info, pair[0], counter)
				if sel == nil {
					continue
				}
				tv, has := info.Types[pair[1]]
				if !has || tv.Value == nil || tv.Value.Kind() != constant.Int {
					continue
				}
				k, exact := constant.Int64Val(tv.Value)
				if !exact {
					continue
				}
				// whose counter? the shared header (any class) or the widest layout
				owner := info.TypeOf(sel.X)
				if p, isPtr := owner.Underlying().(*types.Pointer); isPtr {
					owner = p.Elem()
				}
				on := namedOf(owner)
				if on == nil {
					continue
				}
				what := ""
				switch {
				case on.Obj() == m.Header.Obj():
					what = "a node of any size class"
				case on.Obj() == widest.Struct.Obj():
					what = "a " + widest.Struct.Obj().Name()
				default:
					continue
				}
				op := be.Op
				if pair[0] != be.X {
					op = map[token.Token]token.Token{token.LSS: token.GTR, token.GTR: token.LSS, token.LEQ: token.GEQ, token.GEQ: token.LEQ, token.EQL: token.EQL, token.NEQ: token.NEQ}[op]
				}
				pred := func(v int64) bool {
					switch op {
					case token.EQL:
						return v == k
					case token.NEQ:
						return v != k
					case token.LSS:
						return v < k
					case token.LEQ:
						return v <= k
					case token.GTR:
						return v > k
					default:
						return v >= k
					}
				}
				n++
				key := fmt.Sprintf("%s compares the fan-out counter %s with %d", u.Name, types.ExprString(sel), k)
				if pred(0) == pred(top) {
					c.r.ok("R56", key, m.pos(be.Pos()), fmt.Sprintf("the test answers alike for 0 and %d", top), props...)
				} else {
					c.r.bad("R56", key, m.pos(be.Pos()), fmt.Sprintf("the counter of %s is tested against %d in a way that tells 0 from %d: the counter is %d bits wide and a %s with all %d slots taken reads 0, so the full node is taken for an empty one (and the other way round)", what, k, top, bits, widest.Struct.Obj().Name(), widest.Cap), props...)
				}
			}
			return true
		})
	}
	c.r.note("R56: %d comparisons of the fan-out counter of a header or widest-class node with a constant", n)
}

// counterSelector: e is X.childrenLen (through integer conversions) for the counter field.
func counterSelector(info *types.Info, e ast.Expr, counter *types.Var) *ast.SelectorExpr {
	e = ast.Unparen(e)
	for {
		call, ok := e.(*ast.CallExpr)
		if !ok || !isConversion(info, call) || len(call.Args) != 1 {
			break
		}
		e = ast.Unparen(call.Args[0])
	}
	sel, ok := e.(*ast.SelectorExpr)
	if !ok {
		return nil
	}
	if s := info.Selections[sel]; s != nil && s.Obj() == types.Object(counter) {
		return sel
	}
	return nil
}
