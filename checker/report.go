package main

// E7 – obligations, violations, known findings, evidence.

import (
	"encoding/json"
	"fmt"
	"os"
	"path/filepath"
	"sort"
	"strings"
)

type Status int

const (
	Discharged Status = iota
	Violated
	Undecided
)

func (s Status) String() string {
	switch s {
	case Discharged:
		return "discharged"
	case Violated:
		return "VIOLATED"
	}
	return "UNDECIDED"
}

// Obligation is one instance of a rule on one construct of the repository.
type Obligation struct {
	Rule   string   `json:"rule"`     // R01 …
	Key    string   `json:"instance"` // rule + construct, never a line number
	Pos    string   `json:"pos"`      // file:line for the reader only
	Status Status   `json:"-"`
	St     string   `json:"status"`
	Detail string   `json:"detail"` // discharging fact, or what is missing
	Props  []string `json:"properties"`
	Path   []string `json:"path,omitempty"` // CFG/call path for path rules
	Arch   string   `json:"arch,omitempty"`
	// Producer is the registered rule function that was running when the obligation was added.
	Producer string `json:"-"`
}

type Report struct {
	Obls       []*Obligation
	Notes      []string // what was analysed
	Assume     []string
	Exceptions []string
	seen       map[string]int
	producer   string
}

func newReport() *Report { return &Report{seen: map[string]int{}} }

// add records an obligation; identical (rule,key) pairs get a #n suffix in source order so
// that keys stay unique and stable.
func (r *Report) add(o *Obligation) *Obligation {
	base := o.Rule + " " + o.Key
	r.seen[base]++
	if n := r.seen[base]; n > 1 {
		o.Key = fmt.Sprintf("%s #%d", o.Key, n)
	}
	o.St = o.Status.String()
	o.Producer = r.producer
	r.Obls = append(r.Obls, o)
	return o
}

func (r *Report) ok(rule, key, pos, detail string, props ...string) {
	r.add(&Obligation{Rule: rule, Key: key, Pos: pos, Status: Discharged, Detail: detail, Props: append([]string(nil), props...)})
}
func (r *Report) bad(rule, key, pos, detail string, props ...string) *Obligation {
	return r.add(&Obligation{Rule: rule, Key: key, Pos: pos, Status: Violated, Detail: detail, Props: append([]string(nil), props...)})
}
func (r *Report) undecided(rule, key, pos, detail string, props ...string) {
	r.add(&Obligation{Rule: rule, Key: key, Pos: pos, Status: Undecided, Detail: detail, Props: append([]string(nil), props...)})
}
func (r *Report) note(format string, a ...any) { r.Notes = append(r.Notes, fmt.Sprintf(format, a...)) }
func (r *Report) assume(s string) {
	for _, x := range r.Assume {
		if x == s {
			return
		}
	}
	r.Assume = append(r.Assume, s)
}
func (r *Report) exception(s string) {
	for _, x := range r.Exceptions {
		if x == s {
			return
		}
	}
	r.Exceptions = append(r.Exceptions, s)
}

// floor asserts that a rule enumerated at least n instances (coverage floor): a rule that
// matches nothing would otherwise pass forever.
func (r *Report) floor(rule string, n int, what string, props ...string) {
	c := 0
	for _, o := range r.Obls {
		if o.Rule == rule {
			c++
		}
	}
	if c < n {
		r.undecided(rule, "coverage-floor "+what, "-",
			fmt.Sprintf("rule enumerated %d instances, fewer than the %d confirmed by hand: an anchor vanished or an idiom is no longer recognised", c, n), props...)
	}
}

func (r *Report) countRule(rule string) int {
	c := 0
	for _, o := range r.Obls {
		if o.Rule == rule {
			c++
		}
	}
	return c
}

// ---------------------------------------------------------------------------------------------

type KnownFinding struct {
	Property  string `json:"property"`
	Rule      string `json:"rule"`
	Instance  string `json:"instance"`
	WhatFails string `json:"what_fails"`
	Witness   string `json:"witness"`
}

type FixedFinding struct {
	Property string `json:"property"`
	Commit   string `json:"commit"`
	What     string `json:"what_failed"`
	Line     string `json:"line"`
}

type KnownFile struct {
	Comment  string         `json:"comment"`
	Findings []KnownFinding `json:"known_findings"`
	Fixed    []FixedFinding `json:"fixed"`
}

func loadKnown(path string) (*KnownFile, error) {
	var k KnownFile
	b, err := os.ReadFile(path)
	if err != nil {
		if os.IsNotExist(err) {
			return &k, nil
		}
		return nil, err
	}
	if err := json.Unmarshal(b, &k); err != nil {
		return nil, fmt.Errorf("%s: %v", path, err)
	}
	return &k, nil
}

func (k *KnownFile) match(prop string, o *Obligation) *KnownFinding {
	for i := range k.Findings {
		f := &k.Findings[i]
		if f.Property == prop && f.Rule == o.Rule && f.Instance == o.Key {
			return f
		}
	}
	return nil
}

// ---------------------------------------------------------------------------------------------

type Evidence struct {
	PropertyID  string         `json:"property_id"`
	Tier        string         `json:"tier"`
	Seed        int            `json:"seed"`
	Level       string         `json:"level"`
	Coverage    map[string]any `json:"coverage"`
	Assumptions []string       `json:"assumptions"`
	WallS       float64        `json:"wall_s"`
	Violations  int            `json:"violations"`
}

func writeJSON(path string, v any) error {
	b, err := json.MarshalIndent(v, "", " ")
	if err != nil {
		return err
	}
	if err := os.MkdirAll(filepath.Dir(path), 0o755); err != nil {
		return err
	}
	tmp := path + ".tmp"
	if err := os.WriteFile(tmp, append(b, '\n'), 0o644); err != nil {
		return err
	}
	return os.Rename(tmp, path)
}

func sortedKeys[V any](m map[string]V) []string {
	out := make([]string, 0, len(m))
	for k := range m {
		out = append(out, k)
	}
	sort.Strings(out)
	return out
}

func hasProp(o *Obligation, p string) bool {
	for _, x := range o.Props {
		if x == p {
			return true
		}
	}
	return false
}

func joinShort(xs []string, max int) string {
	if len(xs) > max {
		return strings.Join(xs[:max], ", ") + fmt.Sprintf(", … (%d more)", len(xs)-max)
	}
	return strings.Join(xs, ", ")
}
