package main

// Resolution helpers shared by the structural rules, so that the form a maintainer chooses –
// a repeated expression hoisted into a local, a helper wrapped around an expression – does not
// change what a rule sees.

import (
	"go/ast"
	"go/token"
	"go/types"
	"strings"
)

type defInfo struct {
	expr  ast.Expr
	pos   token.Pos
	nDefs int
	bad   bool // reassigned, incremented, address taken, or defined by a multi-value statement
}

// localDefs maps every local variable of the declaration that encloses u (nested literals
// included) to its single defining expression.
func (m *Model) localDefs(u *FuncUnit) map[*types.Var]*defInfo {
	var root ast.Node = u.Body
	if u.Decl != nil && u.Decl.Body != nil {
		root = u.Decl.Body
	}
	if m.defsMemo == nil {
		m.defsMemo = map[ast.Node]map[*types.Var]*defInfo{}
	}
	if d, ok := m.defsMemo[root]; ok {
		return d
	}
	info := m.Info
	out := map[*types.Var]*defInfo{}
	get := func(v *types.Var) *defInfo {
		d := out[v]
		if d == nil {
			d = &defInfo{}
			out[v] = d
		}
		return d
	}
	markBad := func(e ast.Expr) {
		if id, ok := ast.Unparen(e).(*ast.Ident); ok {
			if v, ok := info.ObjectOf(id).(*types.Var); ok {
				get(v).bad = true
			}
		}
	}
	ast.Inspect(root, func(n ast.Node) bool {
		switch x := n.(type) {
		case *ast.AssignStmt:
			for i, l := range x.Lhs {
				id, ok := ast.Unparen(l).(*ast.Ident)
				if !ok {
					continue
				}
				v, ok := info.ObjectOf(id).(*types.Var)
				if !ok {
					continue
				}
				d := get(v)
				if x.Tok == token.DEFINE && info.Defs[id] != nil && len(x.Lhs) == len(x.Rhs) {
					d.nDefs++
					d.expr = x.Rhs[i]
					d.pos = x.Pos()
				} else {
					d.bad = true
				}
			}
		case *ast.ValueSpec:
			for i, id := range x.Names {
				v, ok := info.Defs[id].(*types.Var)
				if !ok {
					continue
				}
				d := get(v)
				if len(x.Values) == len(x.Names) {
					d.nDefs++
					d.expr = x.Values[i]
					d.pos = x.Pos()
				} else {
					d.bad = true // zero value then assigned, or multi-value
				}
			}
		case *ast.IncDecStmt:
			markBad(x.X)
		case *ast.UnaryExpr:
			if x.Op == token.AND {
				markBad(x.X)
			}
		case *ast.RangeStmt:
			if x.Key != nil {
				markBad(x.Key)
			}
			if x.Value != nil {
				markBad(x.Value)
			}
		}
		return true
	})
	m.defsMemo[root] = out
	return out
}

// resolveLocal returns the defining expression of a local that is defined exactly once and
// never changed (nil otherwise). Function literals are not looked through.
func (m *Model) resolveLocal(u *FuncUnit, id *ast.Ident) ast.Expr {
	v, ok := m.Info.ObjectOf(id).(*types.Var)
	if !ok || v.IsField() {
		return nil
	}
	d := m.localDefs(u)[v]
	if d == nil || d.bad || d.nDefs != 1 || d.expr == nil {
		return nil
	}
	if _, isLit := ast.Unparen(d.expr).(*ast.FuncLit); isLit {
		return nil
	}
	return d.expr
}

// throughLocals follows single-definition locals (at most 6 steps): `b := keyS[depth]; f(b)` is
// seen as f(keyS[depth]). The caller decides whether staleness matters (see stableBetween).
func (m *Model) throughLocals(u *FuncUnit, e ast.Expr) ast.Expr {
	for i := 0; i < 6; i++ {
		id, ok := ast.Unparen(e).(*ast.Ident)
		if !ok {
			return e
		}
		d := m.resolveLocal(u, id)
		if d == nil {
			return e
		}
		e = d
	}
	return e
}

// simpleReturn: the single expression a function returns when its body is exactly one return
// statement (a wrapper), else nil.
func simpleReturn(u *FuncUnit) ast.Expr {
	if u == nil || u.Body == nil || len(u.Body.List) != 1 {
		return nil
	}
	rs, ok := u.Body.List[0].(*ast.ReturnStmt)
	if !ok || len(rs.Results) != 1 {
		return nil
	}
	return rs.Results[0]
}

// returnExprs lists the expressions of every return statement of the unit (nested literals
// excluded); ok is false when some return has no explicit single result.
func returnExprs(u *FuncUnit) (out []ast.Expr, ok bool) {
	if u == nil || u.Body == nil {
		return nil, false
	}
	ok = true
	ast.Inspect(u.Body, func(n ast.Node) bool {
		switch x := n.(type) {
		case *ast.FuncLit:
			return false
		case *ast.ReturnStmt:
			if len(x.Results) != 1 {
				ok = false
				return true
			}
			out = append(out, x.Results[0])
		}
		return true
	})
	return out, ok && len(out) > 0
}

// calleeUnit resolves a call to the unit of a library function, method or a closure bound once
// to a local variable.
func (m *Model) calleeUnit(call *ast.CallExpr) *FuncUnit {
	if f := m.staticCallee(call); f != nil {
		return m.ByObj[f]
	}
	if id, ok := ast.Unparen(call.Fun).(*ast.Ident); ok {
		if v, ok := m.Info.ObjectOf(id).(*types.Var); ok {
			return m.LitOfVar[v]
		}
	}
	return nil
}

// paramIndex returns the index of the parameter the identifier refers to in u (-1 if none;
// -2 for the receiver).
func (m *Model) paramIndex(u *FuncUnit, id *ast.Ident) int {
	obj := m.Info.ObjectOf(id)
	if obj == nil || u == nil {
		return -1
	}
	if u.Decl != nil && u.Lit == nil && u.Decl.Recv != nil {
		for _, f := range u.Decl.Recv.List {
			for _, nm := range f.Names {
				if m.Info.Defs[nm] == obj {
					return -2
				}
			}
		}
	}
	i := 0
	if u.Type != nil && u.Type.Params != nil {
		for _, f := range u.Type.Params.List {
			if len(f.Names) == 0 {
				i++
				continue
			}
			for _, nm := range f.Names {
				if m.Info.Defs[nm] == obj {
					return i
				}
				i++
			}
		}
	}
	return -1
}

// argFor returns the caller's expression bound to parameter index i (receiver for -2).
func argFor(call *ast.CallExpr, i int) ast.Expr {
	if i == -2 {
		if sel, ok := ast.Unparen(call.Fun).(*ast.SelectorExpr); ok {
			return sel.X
		}
		return nil
	}
	if i >= 0 && i < len(call.Args) {
		return call.Args[i]
	}
	return nil
}

// treeByNamed returns the tree kind declared by the named type (nil if it is not a tree).
func (m *Model) treeByNamed(n *types.Named) *TreeKind {
	if n == nil {
		return nil
	}
	for _, tk := range m.Trees {
		if tk.Named != nil && tk.Named.Origin().Obj() == n.Origin().Obj() {
			return tk
		}
	}
	return nil
}

// isTreeRecv: the variable is (a pointer to) a tree.
func (m *Model) isTreeRecv(v *types.Var) bool {
	return v != nil && m.treeByNamed(namedOf(v.Type())) != nil
}

// unitByBase finds the function called name, or the only method called name (a helper may have
// been turned into a method of the reference type).
func (m *Model) unitByBase(name string) *FuncUnit {
	if u := m.ByName[name]; u != nil {
		return u
	}
	var found *FuncUnit
	for _, u := range m.Units {
		if u.Lit == nil && strings.HasSuffix(u.Name, "."+name) {
			if found != nil {
				return nil
			}
			found = u
		}
	}
	return found
}

// helperOperand: call is a call of the helper called base – as a function with one operand of the
// reference type, or as a method on it – and operand is that reference expression.
func (m *Model) helperOperand(call *ast.CallExpr, base string) (ast.Expr, bool) {
	name := m.calleeName(call)
	if name != base && !strings.HasSuffix(name, "."+base) {
		return nil, false
	}
	if name == base {
		if len(call.Args) == 1 {
			return call.Args[0], true
		}
		return nil, false
	}
	if sel, ok := ast.Unparen(call.Fun).(*ast.SelectorExpr); ok && len(call.Args) == 0 {
		return sel.X, true
	}
	return nil, false
}

// isRestoreUnit: a function or method that turns a leaf pointer back into the caller's key and
// value: (unsafe.Pointer) → (K, V).
func (m *Model) isRestoreUnit(u *FuncUnit) bool {
	if u == nil || u.Obj == nil || u.Lit != nil {
		return false
	}
	sig, _ := u.Obj.Type().(*types.Signature)
	if sig == nil || sig.Params().Len() != 1 || sig.Results().Len() != 2 {
		return false
	}
	b, ok := sig.Params().At(0).Type().Underlying().(*types.Basic)
	if !ok || b.Kind() != types.UnsafePointer {
		return false
	}
	_, isTP := types.Unalias(sig.Results().At(0).Type()).(*types.TypeParam)
	return isTP
}

func (m *Model) isRestoreCall(call *ast.CallExpr) bool {
	return m.isRestoreUnit(m.calleeUnit(call))
}

// restoreUnit: the restore function of a tree kind – its restoreKey method, or the function its
// Minimum method (or a helper of it) hands leaves to.
func (m *Model) restoreUnit(tk *TreeKind) *FuncUnit {
	if u := tk.Methods["restoreKey"]; u != nil {
		return u
	}
	var found *FuncUnit
	for _, mn := range []string{"Minimum", "All"} {
		mu := tk.Methods[mn]
		if mu == nil {
			continue
		}
		ast.Inspect(mu.Body, func(n ast.Node) bool {
			var obj types.Object
			switch x := n.(type) {
			case *ast.Ident:
				obj = m.Info.Uses[x]
			case *ast.SelectorExpr:
				obj = m.Info.Uses[x.Sel]
			}
			if f, ok := obj.(*types.Func); ok {
				if u := m.ByObj[f.Origin()]; u != nil && m.isRestoreUnit(u) && found == nil {
					found = u
				}
			}
			return true
		})
	}
	return found
}

// effectiveMethod: the function that carries the algorithm of a tree method. A method that only
// prepares the key and then hands over to another method of the same tree (`return t.unlink(keyS,
// colKey)`) is a wrapper: the rules about the descent look at the method it delegates to.
func (m *Model) effectiveMethod(tk *TreeKind, name string) *FuncUnit {
	u := tk.Methods[name]
	for depth := 0; u != nil && depth < 2; depth++ {
		if u.Body == nil || len(u.Body.List) == 0 {
			return u
		}
		hasLoop := false
		ast.Inspect(u.Body, func(n ast.Node) bool {
			switch n.(type) {
			case *ast.FuncLit:
				return false
			case *ast.ForStmt, *ast.RangeStmt:
				hasLoop = true
			}
			return true
		})
		if hasLoop {
			return u
		}
		var call *ast.CallExpr
		switch last := u.Body.List[len(u.Body.List)-1].(type) {
		case *ast.ReturnStmt:
			if len(last.Results) == 1 {
				call, _ = ast.Unparen(last.Results[0]).(*ast.CallExpr)
			}
		case *ast.ExprStmt:
			call, _ = last.X.(*ast.CallExpr)
		}
		if call == nil {
			return u
		}
		cu := m.calleeUnit(call)
		if cu == nil || cu.Lit != nil || cu.Recv != u.Recv || cu == u || cu.Body == nil {
			return u
		}
		u = cu
	}
	return u
}

// algorithmUnit: like effectiveMethod, and when the method has no loop of its own but calls exactly
// one library function that has one (a descent shared by all tree kinds), that function.
func (m *Model) algorithmUnit(tk *TreeKind, name string) *FuncUnit {
	u := m.effectiveMethod(tk, name)
	if u == nil || u.Body == nil {
		return u
	}
	// the descent: a loop, or a function that calls itself on the child
	hasLoop := func(x *FuncUnit) bool {
		found := false
		ast.Inspect(x.Body, func(n ast.Node) bool {
			switch y := n.(type) {
			case *ast.FuncLit:
				return false
			case *ast.ForStmt:
				found = true
			case *ast.CallExpr:
				if x.Obj != nil && m.staticCallee(y) == x.Obj {
					found = true
				}
			}
			return true
		})
		return found
	}
	if hasLoop(u) {
		return u
	}
	var cand *FuncUnit
	n := 0
	ast.Inspect(u.Body, func(x ast.Node) bool {
		if call, ok := x.(*ast.CallExpr); ok {
			if cu := m.calleeUnit(call); cu != nil && cu.Lit == nil && cu.Body != nil && cu != u && hasLoop(cu) && !m.isRestoreUnit(cu) {
				if cand != cu {
					n++
				}
				cand = cu
			}
		}
		return true
	})
	if n == 1 {
		return cand
	}
	return u
}

// pushCall recognises a push onto a slice-typed stack: `q = append(q, e)` (as an assignment) or
// `q.push(e)` where push is a method with a pointer receiver of a slice type whose body is
// `*s = append(*s, x)`. It returns the stack variable and the pushed expression.
func (m *Model) pushCall(n ast.Node) (*types.Var, ast.Expr, bool) {
	info := m.Info
	switch x := n.(type) {
	case *ast.AssignStmt:
		if len(x.Lhs) == 1 && len(x.Rhs) == 1 {
			if call, ok := ast.Unparen(x.Rhs[0]).(*ast.CallExpr); ok && isBuiltinCall(info, call, "append") && len(call.Args) == 2 && !call.Ellipsis.IsValid() {
				if v := identVar(info, x.Lhs[0]); v != nil && identVar(info, call.Args[0]) == v {
					return v, call.Args[1], true
				}
			}
		}
	case *ast.ExprStmt:
		if call, ok := x.X.(*ast.CallExpr); ok {
			return m.pushCall(call)
		}
	case *ast.CallExpr:
		sel, ok := ast.Unparen(x.Fun).(*ast.SelectorExpr)
		if !ok || len(x.Args) != 1 {
			return nil, nil, false
		}
		cu := m.calleeUnit(x)
		if cu == nil || cu.Lit != nil || cu.Body == nil || len(cu.Body.List) != 1 || cu.Decl == nil || cu.Decl.Recv == nil {
			return nil, nil, false
		}
		as, ok := cu.Body.List[0].(*ast.AssignStmt)
		if !ok || len(as.Lhs) != 1 || len(as.Rhs) != 1 {
			return nil, nil, false
		}
		lst, ok := ast.Unparen(as.Lhs[0]).(*ast.StarExpr)
		if !ok {
			return nil, nil, false
		}
		ap, ok := ast.Unparen(as.Rhs[0]).(*ast.CallExpr)
		if !ok || !isBuiltinCall(info, ap, "append") || len(ap.Args) != 2 {
			return nil, nil, false
		}
		rst, ok := ast.Unparen(ap.Args[0]).(*ast.StarExpr)
		if !ok || identVar(info, lst.X) == nil || identVar(info, lst.X) != identVar(info, rst.X) {
			return nil, nil, false
		}
		if pid, ok := ast.Unparen(ap.Args[1]).(*ast.Ident); !ok || m.paramIndex(cu, pid) != 0 {
			return nil, nil, false
		}
		if v := identVar(info, sel.X); v != nil {
			return v, x.Args[0], true
		}
	}
	return nil, nil, false
}

// popCall recognises `q.pop()` where pop is a method with a pointer receiver of a slice type that
// returns the last element and shortens the slice by one.
func (m *Model) popCall(call *ast.CallExpr) (*types.Var, bool) {
	info := m.Info
	sel, ok := ast.Unparen(call.Fun).(*ast.SelectorExpr)
	if !ok || len(call.Args) != 0 {
		return nil, false
	}
	cu := m.calleeUnit(call)
	if cu == nil || cu.Lit != nil || cu.Body == nil || cu.Decl == nil || cu.Decl.Recv == nil {
		return nil, false
	}
	shortens, returnsElem := false, false
	ast.Inspect(cu.Body, func(n ast.Node) bool {
		switch x := n.(type) {
		case *ast.AssignStmt:
			if len(x.Lhs) == 1 && len(x.Rhs) == 1 {
				if _, isStar := ast.Unparen(x.Lhs[0]).(*ast.StarExpr); isStar {
					if se, ok := ast.Unparen(x.Rhs[0]).(*ast.SliceExpr); ok && se.Low == nil && se.High != nil {
						shortens = true
					}
				}
			}
		case *ast.ReturnStmt:
			if len(x.Results) == 1 {
				returnsElem = true
			}
		}
		return true
	})
	if !shortens || !returnsElem {
		return nil, false
	}
	v := identVar(info, sel.X)
	return v, v != nil
}

// implementers: f is a method of an interface declared in the package; the units of the
// package's methods of that name whose receiver type implements the interface.
func (m *Model) implementers(f *types.Func) []*FuncUnit {
	sig, _ := f.Type().(*types.Signature)
	if sig == nil || sig.Recv() == nil {
		return nil
	}
	it, ok := sig.Recv().Type().Underlying().(*types.Interface)
	if !ok {
		return nil
	}
	var out []*FuncUnit
	for _, cu := range m.Units {
		if cu.Obj == nil || cu.Lit != nil || cu.Obj.Name() != f.Name() {
			continue
		}
		rs, _ := cu.Obj.Type().(*types.Signature)
		if rs == nil || rs.Recv() == nil {
			continue
		}
		rt := rs.Recv().Type()
		if n := namedOf(rt); n != nil && n.TypeParams().Len() > 0 {
			continue
		}
		if types.Implements(rt, it) || types.Implements(types.NewPointer(rt), it) {
			out = append(out, cu)
		}
	}
	return out
}
