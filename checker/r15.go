package main

import (
	"fmt"
	"go/ast"
	"go/constant"
	"go/token"
	"go/types"
	"math/big"
	"sort"
	"strings"
)

// typeSetOf returns the terms of the type set of a type parameter's constraint.
func typeSetOf(tp *types.TypeParam) []types.Type {
	var out []types.Type
	var walk func(t types.Type)
	walk = func(t types.Type) {
		switch x := t.(type) {
		case *types.Named:
			walk(x.Underlying())
		case *types.Alias:
			walk(types.Unalias(x))
		case *types.Interface:
			for i := 0; i < x.NumEmbeddeds(); i++ {
				walk(x.EmbeddedType(i))
			}
		case *types.Union:
			for i := 0; i < x.Len(); i++ {
				walk(x.Term(i).Type())
			}
		case *types.Basic:
			out = append(out, x)
		}
	}
	walk(tp.Constraint())
	return out
}

type armFacts struct {
	typ        types.Type
	width      int64 // sizeof on the target
	makeLens   []int64
	litLens    []int64
	binCalls   []string // e.g. BigEndian.PutUint16
	xorConsts  []string // exact constants XORed / ORed
	shifts     []string
	addConsts  []string
	cmpConsts  []string // constants compared with == (special codes)
	assigned   []string // constants assigned (special codes)
	pos        token.Pos
	mathConsts []string          // math.MaxFloat32, math.MaxUint64 … used in the arm
	codeOf     map[string]string // Transform: special value class (inf+ / inf- / nan) → code assigned under its test
	classOf    map[string]string // Restore: code tested → special value class produced under that test
}

// specialClass: the class of special float value an expression tests for or produces.
func (c *Ctx) specialClass(e ast.Node) string {
	info := c.m.Info
	class := ""
	ast.Inspect(e, func(n ast.Node) bool {
		call, ok := n.(*ast.CallExpr)
		if !ok {
			return true
		}
		switch c.m.calleeName(call) {
		case "math.IsNaN", "math.NaN":
			class = "nan"
		case "math.IsInf", "math.Inf":
			if len(call.Args) >= 1 {
				if tv, has := info.Types[call.Args[len(call.Args)-1]]; has && tv.Value != nil {
					if v, exact := constant.Int64Val(constant.ToInt(tv.Value)); exact {
						switch {
						case v > 0:
							class = "inf+"
						case v < 0:
							class = "inf-"
						default:
							if c.m.calleeName(call) == "math.Inf" {
								class = "inf+" // math.Inf(0) is +Inf
							} else {
								class = "inf±"
							}
						}
					}
				}
			}
		}
		return true
	})
	return class
}

func bigOf(v constant.Value) *big.Int {
	b, ok := new(big.Int).SetString(v.ExactString(), 10)
	if !ok {
		return nil
	}
	return b
}

// collectArm gathers the constant facts of the live code of one type-switch arm.
func (c *Ctx) collectArm(cc *ast.CaseClause) *armFacts {
	info := c.m.Info
	af := &armFacts{pos: cc.Pos()}
	if len(cc.List) == 1 {
		if tv, ok := info.Types[cc.List[0]]; ok && tv.IsType() {
			af.typ = tv.Type
			af.width = c.L.Sizes.Sizeof(tv.Type)
		}
	}
	visited := map[*FuncUnit]bool{}
	for _, st := range cc.Body {
		c.collectArmInto(af, st, 0, visited)
	}
	return af
}

func (c *Ctx) collectArmInto(af *armFacts, st ast.Node, depth int, visited map[*FuncUnit]bool) {
	info := c.m.Info
	var stack []ast.Node
	cst := func(e ast.Expr) (string, bool) {
		if tv, ok := info.Types[e]; ok && tv.Value != nil && tv.Value.Kind() == constant.Int {
			return tv.Value.ExactString(), true
		}
		return "", false
	}
	{
		ast.Inspect(st, func(n ast.Node) bool {
			if n == nil {
				stack = stack[:len(stack)-1]
				return true
			}
			stack = append(stack, n)
			if c.inDeadBranch(stack) {
				return true
			}
			// the test this node sits under (innermost if-body or case body)
			underClass, underCode := "", ""
			for i := len(stack) - 2; i >= 0 && underClass == "" && underCode == ""; i-- {
				var conds []ast.Expr
				switch p := stack[i].(type) {
				case *ast.IfStmt:
					if stack[i+1] == ast.Node(p.Body) {
						conds = []ast.Expr{p.Cond}
					}
				case *ast.CaseClause:
					inBody := false
					for _, st := range p.Body {
						if stack[i+1] == ast.Node(st) {
							inBody = true
						}
					}
					if inBody {
						conds = p.List
						// tagged switch: case C tests tag == C
						if i > 1 {
							if sw, ok := stack[i-2].(*ast.SwitchStmt); ok && sw.Tag != nil {
								for _, e := range p.List {
									if s, ok := cst(e); ok {
										underCode = s
									}
								}
							}
						}
					}
				}
				for _, cond := range conds {
					if cl := c.specialClass(cond); cl != "" {
						underClass = cl
					}
					if be, ok := ast.Unparen(cond).(*ast.BinaryExpr); ok && be.Op == token.EQL {
						if s, ok := cst(be.Y); ok {
							underCode = s
						} else if s, ok := cst(be.X); ok {
							underCode = s
						}
					}
				}
			}
			record := func(code string) {
				if underClass != "" {
					if af.codeOf == nil {
						af.codeOf = map[string]string{}
					}
					af.codeOf[underClass] = code
				}
			}
			if underCode != "" {
				if call, ok := n.(*ast.CallExpr); ok {
					if cl := c.specialClass(call); cl != "" && (c.m.calleeName(call) == "math.Inf" || c.m.calleeName(call) == "math.NaN") {
						if af.classOf == nil {
							af.classOf = map[string]string{}
						}
						af.classOf[underCode] = cl
					}
				}
			}
			if sel, ok := n.(*ast.SelectorExpr); ok {
				if id, ok := sel.X.(*ast.Ident); ok {
					if pn, ok := info.Uses[id].(*types.PkgName); ok && pn.Imported().Path() == "math" {
						if _, isConst := info.Uses[sel.Sel].(*types.Const); isConst {
							af.mathConsts = append(af.mathConsts, sel.Sel.Name)
						}
					}
				}
			}
			switch x := n.(type) {
			case *ast.CallExpr:
				// the arm may delegate to a helper of the library (sortableFloat32(k)): its body is
				// part of the arm
				if cu := c.m.calleeUnit(x); cu != nil && cu.Lit == nil && cu.Body != nil && depth < 2 && !visited[cu] && !isConversion(info, x) {
					visited[cu] = true
					c.collectArmInto(af, cu.Body, depth+1, visited)
				}
				if isBuiltinCall(info, x, "make") && len(x.Args) == 2 {
					if s, ok := cst(x.Args[1]); ok {
						var v int64
						fmt.Sscan(s, &v)
						af.makeLens = append(af.makeLens, v)
					}
				}
				if sel, ok := x.Fun.(*ast.SelectorExpr); ok {
					if s2, ok := sel.X.(*ast.SelectorExpr); ok {
						if id, ok := s2.X.(*ast.Ident); ok && id.Name == "binary" {
							name := sel.Sel.Name
							// AppendUintN(make([]byte, 0, C), v) builds the same N/8 bytes as
							// make([]byte, N/8) + PutUintN
							if strings.HasPrefix(name, "AppendUint") && len(x.Args) == 2 {
								if mk, ok := ast.Unparen(x.Args[0]).(*ast.CallExpr); ok && isBuiltinCall(info, mk, "make") && len(mk.Args) == 3 {
									if l, ok := cst(mk.Args[1]); ok && l == "0" {
										var bits int64
										fmt.Sscan(strings.TrimPrefix(name, "AppendUint"), &bits)
										af.makeLens = append(af.makeLens, bits/8)
										name = "PutUint" + strings.TrimPrefix(name, "AppendUint")
									}
								}
							}
							af.binCalls = append(af.binCalls, s2.Sel.Name+"."+name)
						}
					}
				}
			case *ast.CompositeLit:
				if _, ok := info.TypeOf(x).Underlying().(*types.Slice); ok {
					af.litLens = append(af.litLens, int64(len(x.Elts)))
				}
			case *ast.BinaryExpr:
				switch x.Op {
				case token.XOR, token.OR:
					if s, ok := cst(x.Y); ok {
						af.xorConsts = append(af.xorConsts, s)
					}
				case token.SHR, token.SHL:
					if s, ok := cst(x.Y); ok {
						af.shifts = append(af.shifts, s)
					}
				case token.EQL:
					if s, ok := cst(x.Y); ok {
						af.cmpConsts = append(af.cmpConsts, s)
					} else if s, ok := cst(x.X); ok {
						af.cmpConsts = append(af.cmpConsts, s)
					}
				}
			case *ast.SwitchStmt:
				// switch i { case C: … } tests i == C
				if x.Tag != nil {
					for _, cl := range x.Body.List {
						for _, e := range cl.(*ast.CaseClause).List {
							if s, ok := cst(e); ok {
								af.cmpConsts = append(af.cmpConsts, s)
							}
						}
					}
				}
			case *ast.ReturnStmt:
				// in a helper the code is returned instead of assigned: return C / return i + C
				if depth > 0 && len(x.Results) == 1 {
					if s, ok := cst(x.Results[0]); ok {
						af.assigned = append(af.assigned, s)
						record(s)
					} else if be, ok := ast.Unparen(x.Results[0]).(*ast.BinaryExpr); ok && (be.Op == token.ADD || be.Op == token.SUB) {
						if s, ok := cst(be.Y); ok {
							af.addConsts = append(af.addConsts, s)
						}
					}
				}
			case *ast.AssignStmt:
				if len(x.Lhs) == 1 && len(x.Rhs) == 1 {
					if s, ok := cst(x.Rhs[0]); ok {
						switch x.Tok {
						case token.ADD_ASSIGN, token.SUB_ASSIGN:
							af.addConsts = append(af.addConsts, s)
						case token.ASSIGN:
							af.assigned = append(af.assigned, s)
							record(s)
						}
					}
				}
			}
			return true
		})
	}
}

// typeSwitchOn finds the type switch of a codec method and its arms.
func (c *Ctx) codecArms(u *FuncUnit) (arms map[string]*armFacts, hasDefault, defaultPanics bool, found bool) {
	arms = map[string]*armFacts{}
	ast.Inspect(u.Body, func(n ast.Node) bool {
		ts, ok := n.(*ast.TypeSwitchStmt)
		if !ok {
			return true
		}
		found = true
		for _, cl := range ts.Body.List {
			cc := cl.(*ast.CaseClause)
			if cc.List == nil {
				hasDefault = true
				defaultPanics = endsInPanic(c.m.Info, cc.Body)
				continue
			}
			af := c.collectArm(cc)
			if af.typ != nil {
				arms[af.typ.String()] = af
			}
			// case uint16, uint32, uint64: one arm for several key types
			if len(cc.List) > 1 {
				for _, e := range cc.List {
					if tv, ok := c.m.Info.Types[e]; ok && tv.IsType() && arms[tv.Type.String()] == nil {
						cp := *af
						cp.typ = tv.Type
						cp.width = c.L.Sizes.Sizeof(tv.Type)
						arms[tv.Type.String()] = &cp
					}
				}
			}
		}
		return false
	})
	return
}

// R15 CODEC – encoder/decoder sibling agreement of the numeric codecs.
func ruleR15(c *Ctx) {
	m := c.m
	props := []string{"C07", "C02", "C09"}
	nCodec, nInterp := 0, 0
	for _, name := range m.Pkg.Scope().Names() {
		tn, ok := m.Pkg.Scope().Lookup(name).(*types.TypeName)
		if !ok {
			continue
		}
		named := namedOf(tn.Type())
		if named == nil || !isCodecType(named) || named.TypeParams().Len() != 1 {
			continue
		}
		tu, ru := m.ByName[name+".Transform"], m.ByName[name+".Restore"]
		if tu == nil || ru == nil {
			continue
		}
		tArms, tDef, tDefPanics, tFound := c.codecArms(tu)
		rArms, rDef, rDefPanics, rFound := c.codecArms(ru)
		if !c.numericCodec(named) {
			continue // not a numeric codec (alpha, collation)
		}
		_, _ = tFound, rFound
		nCodec++
		set := typeSetOf(named.TypeParams().At(0))
		followed := map[string]bool{} // key types whose code the abstract interpreter follows to a result
		for _, t := range set {
			if v := c.interpretCodecArm(tu, ru, t); v.decided {
				followed[t.String()] = true
			}
		}
		// (i) exhaustiveness
		for dir, arms := range map[string]map[string]*armFacts{"Transform": tArms, "Restore": rArms} {
			var missing []string
			for _, t := range set {
				if arms[t.String()] == nil && !followed[t.String()] {
					missing = append(missing, t.String())
				}
			}
			sort.Strings(missing)
			key := fmt.Sprintf("%s.%s has an arm for every key type", name, dir)
			u := tu
			hasDef, defPanics := tDef, tDefPanics
			if dir == "Restore" {
				u, hasDef, defPanics = ru, rDef, rDefPanics
			}
			switch {
			case len(missing) > 0 && hasDef && defPanics:
				c.r.bad("R15", key, m.pos(u.Decl.Pos()), "no arm for "+strings.Join(missing, ", ")+": the default arm panics for a supported key type", props...)
			case len(missing) > 0:
				c.r.bad("R15", key, m.pos(u.Decl.Pos()), "no arm for "+strings.Join(missing, ", ")+" and no panicking default: the codec silently returns an empty encoding for that type", props...)
			default:
				c.r.ok("R15", key, m.pos(u.Decl.Pos()), fmt.Sprintf("%d arms cover the type set of the constraint", len(set)), props...)
			}
		}
		// (ii)–(iv) per arm
		for _, t := range set {
			ts := t.String()
			ta, ra := tArms[ts], rArms[ts]
			// abstract interpretation of the arm on the classes of its key type (codecinterp.go)
			verdict := c.interpretCodecArm(tu, ru, t)
			ikey := fmt.Sprintf("%s[%s] is an order-preserving fixed-width encoding that Restore inverts", name, ts)
			ipos := m.pos(tu.Decl.Pos())
			if ta != nil {
				ipos = m.pos(ta.pos)
			}
			switch {
			case verdict.decided && verdict.ok:
				nInterp++
				c.r.ok("R15", ikey, ipos, "abstract interpretation per value class (m = the bits below the sign/top bit): "+verdict.detail, props...)
			case verdict.decided:
				nInterp++
				c.r.bad("R15", ikey, ipos, verdict.detail, props...)
				continue // the interpreter's finding names the defect; the pattern clauses would only add guesses
			default:
				c.r.note("R15: %s[%s] not followed by the abstract interpreter (%s); pattern clauses only", name, ts, verdict.unknown)
			}
			if ta == nil || ra == nil {
				// no type-switch arm to apply the pattern clauses to (a dispatch on unsafe.Sizeof, a
				// helper per width): the interpreter's verdict stands alone
				if !verdict.decided {
					c.r.undecided("R15", ikey, ipos, "no type-switch arm for this key type and the abstract interpreter could not follow the code: "+verdict.unknown, props...)
				}
				continue
			}
			W := ta.width
			bitsW := 8 * W
			// the pattern clauses below look for the constants of ONE way of writing the sign
			// handling; where the interpreter has decided the arm they are informative only
			interpOK := verdict.decided && verdict.ok
			// width of the produced slice
			key := fmt.Sprintf("%s[%s] encoding is %d bytes", name, ts, W)
			lens := append(append([]int64{}, ta.makeLens...), ta.litLens...)
			okLen := len(lens) > 0
			for _, l := range lens {
				if l != W {
					okLen = false
				}
			}
			if okLen {
				c.r.ok("R15", key, m.pos(ta.pos), fmt.Sprintf("slice length %v = unsafe.Sizeof(%s)", lens, ts), props...)
			} else if interpOK {
				c.r.ok("R15", key, m.pos(ta.pos), fmt.Sprintf("the arm mentions slice lengths %v (a helper or another instantiation shared between widths); that every value of this type is encoded in exactly %d bytes is established by the abstract interpretation of the arm", lens, W), props...)
			} else {
				c.r.bad("R15", key, m.pos(ta.pos), fmt.Sprintf("Transform builds a slice of length %v for a %d-byte key type: not fixed-width big-endian of the full value", lens, W), props...)
			}
			// byte order and call width
			for dir, af := range map[string]*armFacts{"Transform": ta, "Restore": ra} {
				if W == 1 && len(af.binCalls) == 0 {
					continue
				}
				key := fmt.Sprintf("%s[%s].%s uses big-endian %d-bit accessors", name, ts, dir, bitsW)
				want := "BigEndian.PutUint" + fmt.Sprint(bitsW)
				if dir == "Restore" {
					want = "BigEndian.Uint" + fmt.Sprint(bitsW)
				}
				okCalls := len(af.binCalls) > 0
				for _, bc := range af.binCalls {
					if bc != want {
						okCalls = false
					}
				}
				if okCalls {
					c.r.ok("R15", key, m.pos(af.pos), strings.Join(af.binCalls, ","), props...)
				} else if interpOK {
					c.r.ok("R15", key, m.pos(af.pos), fmt.Sprintf("the arm reaches %v (a helper or another instantiation shared between widths); the accessor used on the path of this type, its width and byte order are established by the abstract interpretation of the arm", af.binCalls), props...)
				} else {
					c.r.bad("R15", key, m.pos(af.pos), fmt.Sprintf("expected only binary.%s, found %v: another byte order or width round-trips but does not preserve order", want, af.binCalls), props...)
				}
			}
			// limits of the other width (a float64 arm copied from the float32 one that still compares
			// with math.MaxFloat32)
			if bitsW == 32 || bitsW == 64 {
				other := map[int64]string{32: "64", 64: "32"}[bitsW]
				for dir, af := range map[string]*armFacts{"Transform": ta, "Restore": ra} {
					key := fmt.Sprintf("%s[%s].%s uses the limits of its own width", name, ts, dir)
					var foreign []string
					for _, mc := range af.mathConsts {
						if strings.HasSuffix(mc, other) {
							foreign = append(foreign, "math."+mc)
						}
					}
					if len(foreign) == 0 {
						c.r.ok("R15", key, m.pos(af.pos), fmt.Sprintf("no math.*%s constant in the %d-bit arm", other, bitsW), props...)
					} else if interpOK {
						c.r.ok("R15", key, m.pos(af.pos), fmt.Sprintf("uses %s, harmlessly: the abstract interpretation of the arm establishes order and round trip for every value class", strings.Join(foreign, ", ")), props...)
					} else {
						c.r.bad("R15", key, m.pos(af.pos), fmt.Sprintf("the %d-bit arm compares with or assigns %s: values between the two limits are classified as special values or encoded with the wrong width", bitsW, strings.Join(foreign, ", ")), props...)
					}
				}
			}
			signBit := new(big.Int).Lsh(big.NewInt(1), uint(bitsW-1)).String()
			isSigned := false
			isFloat := false
			if b, ok := t.Underlying().(*types.Basic); ok {
				isSigned = b.Info()&types.IsInteger != 0 && b.Info()&types.IsUnsigned == 0
				isFloat = b.Info()&types.IsFloat != 0
			}
			if isSigned {
				for dir, af := range map[string]*armFacts{"Transform": ta, "Restore": ra} {
					key := fmt.Sprintf("%s[%s].%s flips exactly the sign bit", name, ts, dir)
					if len(af.xorConsts) == 1 && af.xorConsts[0] == signBit {
						c.r.ok("R15", key, m.pos(af.pos), "^ 1<<"+fmt.Sprint(bitsW-1), props...)
					} else if interpOK {
						c.r.ok("R15", key, m.pos(af.pos), "written differently from `^ 1<<(w-1)`; the effect on both sign classes is established by the abstract interpretation of the arm", props...)
					} else {
						c.r.bad("R15", key, m.pos(af.pos), fmt.Sprintf("expected a single XOR with %s (1<<%d), found %v", signBit, bitsW-1, af.xorConsts), props...)
					}
				}
			}
			if isFloat {
				maxU := new(big.Int).Sub(new(big.Int).Lsh(big.NewInt(1), uint(bitsW)), big.NewInt(1))
				posInf := new(big.Int).Sub(maxU, big.NewInt(1)).String()
				// sign constant and shift in both directions
				for dir, af := range map[string]*armFacts{"Transform": ta, "Restore": ra} {
					key := fmt.Sprintf("%s[%s].%s sign mask and shift", name, ts, dir)
					okSign := len(af.xorConsts) >= 1
					for _, x := range af.xorConsts {
						if x != signBit {
							okSign = false
						}
					}
					okShift := len(af.shifts) >= 1
					for _, s := range af.shifts {
						if s != fmt.Sprint(bitsW-1) {
							okShift = false
						}
					}
					if okSign && okShift {
						c.r.ok("R15", key, m.pos(af.pos), fmt.Sprintf("| 1<<%d, >> %d", bitsW-1, bitsW-1), props...)
					} else if interpOK {
						c.r.ok("R15", key, m.pos(af.pos), "written without the mask-and-shift idiom; the effect on every value class is established by the abstract interpretation of the arm", props...)
					} else {
						c.r.bad("R15", key, m.pos(af.pos), fmt.Sprintf("expected sign constant %s and shift %d, found constants %v shifts %v", signBit, bitsW-1, af.xorConsts, af.shifts), props...)
					}
				}
				// offset
				key := fmt.Sprintf("%s[%s] offset reserves the special codes in both directions", name, ts)
				if len(ta.addConsts) == 1 && len(ra.addConsts) == 1 && ta.addConsts[0] == ra.addConsts[0] && ta.addConsts[0] >= "2" && len(ta.addConsts[0]) == 1 {
					c.r.ok("R15", key, m.pos(ta.pos), "+= "+ta.addConsts[0]+" / -= "+ra.addConsts[0], props...)
				} else if interpOK {
					c.r.ok("R15", key, m.pos(ta.pos), "the offset is not written as one `+= c` / `-= c` pair; that the codes of the ordinary values avoid the special codes and are restored exactly is established by the abstract interpretation of the arm", props...)
				} else {
					c.r.bad("R15", key, m.pos(ta.pos), fmt.Sprintf("Transform adds %v, Restore subtracts %v: they must be equal and at least 2 (codes 0 and 1 are NaN and -Inf)", ta.addConsts, ra.addConsts), props...)
				}
				// special codes: Transform assigns {0, 1, Max-1}; Restore compares with the same set
				want := map[string]bool{"0": true, "1": true, posInf: true}
				tset, rset := map[string]bool{}, map[string]bool{}
				for _, a := range ta.assigned {
					tset[a] = true
				}
				for _, a := range ra.cmpConsts {
					rset[a] = true
				}
				key = fmt.Sprintf("%s[%s] special codes agree (NaN, -Inf, +Inf)", name, ts)
				var errs []string
				for w := range want {
					if !tset[w] {
						errs = append(errs, "Transform never assigns code "+w)
					}
					if !rset[w] {
						errs = append(errs, "Restore never tests code "+w)
					}
				}
				for a := range tset {
					if !want[a] {
						errs = append(errs, "Transform assigns unexpected code "+a)
					}
				}
				for a := range rset {
					if !want[a] && a != ta.addConsts0() {
						errs = append(errs, "Restore tests unexpected code "+a)
					}
				}
				// which special value each code stands for must be the same in both directions
				for class, code := range ta.codeOf {
					if back, ok := ra.classOf[code]; ok && back != class {
						errs = append(errs, fmt.Sprintf("Transform encodes %s as code %s but Restore decodes code %s as %s", class, code, code, back))
					}
				}
				sort.Strings(errs)
				if len(errs) == 0 {
					c.r.ok("R15", key, m.pos(ra.pos), "{0, 1, 2^"+fmt.Sprint(bitsW)+"-2} in both directions", props...)
				} else if interpOK {
					c.r.ok("R15", key, m.pos(ra.pos), "the special values are not classified by the assignments and comparisons this clause looks for ("+strings.Join(errs, "; ")+"); that NaN, -Inf and +Inf get one code each, below and above every ordinary code, and are restored is established by the abstract interpretation of the arm", props...)
				} else {
					c.r.bad("R15", key, m.pos(ra.pos), strings.Join(errs, "; "), props...)
				}
			}
		}
	}
	c.r.note("R15: %d numeric codecs, %d arms decided by abstract interpretation", nCodec, nInterp)
	c.r.floor("R15", 3*2+12*2, "codec arm facts", "C07")
}

func (a *armFacts) addConsts0() string {
	if len(a.addConsts) > 0 {
		return a.addConsts[0]
	}
	return ""
}

// numericCodec: every term of the codec's key constraint is a numeric basic type.
func (c *Ctx) numericCodec(named *types.Named) bool {
	set := typeSetOf(named.TypeParams().At(0))
	if len(set) == 0 {
		return false
	}
	for _, t := range set {
		b, ok := t.Underlying().(*types.Basic)
		if !ok || b.Info()&types.IsNumeric == 0 {
			return false
		}
	}
	return true
}
