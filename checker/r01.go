package main

import (
	"fmt"
	"go/ast"
	"go/types"

	"golang.org/x/tools/go/cfg"
)

// R01 KEYIDX – no unguarded index into caller-controlled key bytes.
func ruleR01(c *Ctx) {
	probe := c.e.probeKeys()
	isProbe := func(x ast.Expr) (*types.Var, bool) {
		id, ok := ast.Unparen(x).(*ast.Ident)
		if !ok {
			return nil, false
		}
		v, _ := c.m.Info.ObjectOf(id).(*types.Var)
		if v == nil || !probe[v] {
			return nil, false
		}
		switch u := v.Type().Underlying().(type) {
		case *types.Slice:
			return v, true
		case *types.Basic:
			return v, u.Info()&types.IsString != 0
		}
		if _, isTP := types.Unalias(v.Type()).(*types.TypeParam); isTP {
			return v, true
		}
		return nil, false
	}
	lenOf := func(x ast.Expr) ast.Expr {
		return &ast.CallExpr{Fun: ast.NewIdent("len"), Args: []ast.Expr{x}}
	}
	_ = lenOf
	n := 0
	for _, u := range c.sortedUnits() {
		props := c.attribute(u, "C01", "C03", "C04", "C08", "C09")
		if len(props) == 0 {
			continue
		}
		fl := c.e.flow(u)
		fl.walk(func(node ast.Node, fs *FactSet, stmt ast.Node, b *cfg.Block) {
			check := func(what string, base ast.Expr, idx ast.Expr, strict bool) {
				n++
				key := fmt.Sprintf("%s %s %s", u.Name, what, display(fl.raw.canon(node.(ast.Expr))))
				li, ok := fl.z.lin(idx)
				if !ok {
					c.r.undecided("R01", key, c.m.pos(node.Pos()), "index expression is not an integer term", props...)
					return
				}
				atom := "len(" + fl.raw.canon(base) + ")"
				fl.at.addSide(atom, linAtom(atom).scale(-1))
				// the index is the result of a library function that its own body bounds by the length
				// of an argument (x[:longestCommonPrefix(x, y, 0)]): that bound holds of the call itself
				if call, isCall := ast.Unparen(idx).(*ast.CallExpr); isCall && fl.retBnd != nil && len(li.t) == 1 {
					for _, rb := range fl.retBnd(call) {
						if rb.Arg < len(call.Args) {
							la := "len(" + fl.raw.canon(call.Args[rb.Arg]) + ")"
							fl.at.addSide(la, linAtom(la).scale(-1))
							for ca := range li.t {
								fl.at.addSide(ca, linAtom(ca).add(linAtom(la), -1)) // call - len(arg) ≤ 0
							}
						}
					}
				}
				goal := li.add(linAtom(atom), -1)
				need := display(fl.raw.canon(idx)) + " <= len(" + display(fl.raw.canon(base)) + ")"
				if strict {
					goal.c++
					need = display(fl.raw.canon(idx)) + " < len(" + display(fl.raw.canon(base)) + ")"
				}
				if fs.proveLin(goal) {
					c.r.ok("R01", key, c.m.pos(node.Pos()), "guarded: "+need+" follows from the facts on every path", props...)
				} else {
					o := c.r.bad("R01", key, c.m.pos(node.Pos()),
						"caller-controlled key indexed without a dominating length test: cannot derive "+need+" (facts here: "+joinShort(fs.describe(), 12)+")", props...)
					o.Path = []string{"function " + u.Name, "block " + b.String()}
				}
			}
			switch x := node.(type) {
			case *ast.IndexExpr:
				if _, ok := isProbe(x.X); ok {
					if tv, ok := c.m.Info.Types[x.Index]; ok && tv.IsType() {
						return
					}
					check("index", x.X, x.Index, true)
				}
			case *ast.SliceExpr:
				if _, ok := isProbe(x.X); ok {
					switch {
					case x.High != nil:
						check("slice-high", x.X, x.High, false)
					case x.Low != nil:
						check("slice-low", x.X, x.Low, false)
					}
					if x.High != nil && x.Low != nil {
						// low ≤ len follows from low ≤ high ≤ len only if low ≤ high; checked as low ≤ len
						check("slice-low", x.X, x.Low, false)
					}
				}
			}
		})
	}
	c.r.note("R01: %d index/slice sites on probe keys examined; probe-key variables: %d", n, len(probe))
	c.r.floor("R01", 25, "key index sites", "C01")
}
