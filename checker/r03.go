package main

import (
	"fmt"
	"go/ast"
	"go/token"
	"go/types"
	"os"
	"strings"

	"golang.org/x/tools/go/cfg"
)

const (
	flagEX = 1 // crossed a "key exhausted" edge (position ≥ len(key))
	flagLX = 2 // left the descent loop through its `slot.pointer != nil` guard
)

// singleDef returns the only expression ever assigned to v in body (nil if none or several).
func singleDef(info *types.Info, body ast.Node, v *types.Var) ast.Expr {
	var def ast.Expr
	n := 0
	ast.Inspect(body, func(x ast.Node) bool {
		switch y := x.(type) {
		case *ast.AssignStmt:
			for i, l := range y.Lhs {
				if identVar(info, l) == v {
					n++
					if len(y.Lhs) == len(y.Rhs) {
						def = y.Rhs[i]
					} else {
						def = nil
						n++
					}
				}
			}
		case *ast.ValueSpec:
			for i, nm := range y.Names {
				if info.ObjectOf(nm) == v {
					n++
					if i < len(y.Values) {
						def = y.Values[i]
					}
				}
			}
		}
		return true
	})
	if n != 1 {
		return nil
	}
	return def
}

// refLitTag returns the constant tag of a nodeRef{pointer: …, tag: T} literal – written in place,
// or returned by every return statement of a helper, method or closure the expression calls
// (newLeafRef(p), n4.asRef(), createLeaf()). ptr is the pointer operand as the caller wrote it when
// it can be traced (a parameter or the receiver of the helper), else the helper's own expression.
func (c *Ctx) refLitTag(e ast.Expr) (tag int64, ptr ast.Expr, ok bool) {
	return c.refLitTagDepth(e, 0)
}

func (c *Ctx) refLitTagDepth(e ast.Expr, depth int) (tag int64, ptr ast.Expr, ok bool) {
	if call, isCall := ast.Unparen(e).(*ast.CallExpr); isCall && depth < 3 && !isConversion(c.m.Info, call) {
		cu := c.m.calleeUnit(call)
		if cu == nil {
			return
		}
		if n := namedOf(c.m.Info.TypeOf(call)); n == nil || n.Obj() != c.m.NodeRef.Obj() {
			return
		}
		rets, all := returnExprs(cu)
		if !all {
			return
		}
		for i, r := range rets {
			r = c.m.throughLocals(cu, r)
			t, p, rok := c.refLitTagDepth(r, depth+1)
			if !rok || (i > 0 && t != tag) {
				return 0, nil, false
			}
			tag = t
			if i == 0 {
				ptr = p
				// trace the pointer operand back to the caller's expression
				inner := ast.Unparen(c.m.throughLocals(cu, p))
				for {
					if cv, isCv := inner.(*ast.CallExpr); isCv && isConversion(c.m.Info, cv) && len(cv.Args) == 1 {
						inner = ast.Unparen(cv.Args[0])
						continue
					}
					break
				}
				if id, isId := inner.(*ast.Ident); isId {
					if a := argFor(call, c.m.paramIndex(cu, id)); a != nil {
						ptr = a
					}
				}
			}
		}
		return tag, ptr, len(rets) > 0
	}
	cl, isLit := ast.Unparen(e).(*ast.CompositeLit)
	if !isLit {
		return
	}
	n := namedOf(c.m.Info.TypeOf(cl))
	if n == nil || n.Obj() != c.m.NodeRef.Obj() {
		return
	}
	st := n.Underlying().(*types.Struct)
	for i, el := range cl.Elts {
		name := ""
		val := el
		if kv, isKV := el.(*ast.KeyValueExpr); isKV {
			name = kv.Key.(*ast.Ident).Name
			val = kv.Value
		} else if i < st.NumFields() {
			name = st.Field(i).Name()
		}
		switch name {
		case "tag":
			if tv, has := c.m.Info.Types[val]; has && tv.Value != nil {
				fmt.Sscan(tv.Value.ExactString(), &tag)
				ok = true
			}
		case "pointer":
			ptr = val
		}
	}
	return
}

// exhaustEdge reports whether taking edge (b,succ) means "a position is ≥ the length of a key".
func (c *Ctx) exhaustEdge(u *FuncUnit, b *cfg.Block, succ int) bool {
	cond := condOf(c.m.Info, b)
	if cond == nil {
		return false
	}
	var atoms []atomCond
	for _, a := range impliedAtoms(cond, succ == 0) {
		// a named boolean bound once to a comparison
		if id, ok := ast.Unparen(a.e).(*ast.Ident); ok && u != nil {
			if d := c.m.resolveLocal(u, id); d != nil {
				atoms = append(atoms, impliedAtoms(d, a.val)...)
				continue
			}
		}
		atoms = append(atoms, a)
	}
	for _, a := range atoms {
		be, ok := ast.Unparen(a.e).(*ast.BinaryExpr)
		if !ok {
			continue
		}
		op := be.Op
		l, r := be.X, be.Y
		if !a.val {
			switch op {
			case token.LSS:
				op = token.GEQ
			case token.LEQ:
				op = token.GTR
			case token.GTR:
				op = token.LEQ
			case token.GEQ:
				op = token.LSS
			default:
				continue
			}
		}
		isLen := func(e ast.Expr) bool {
			call, ok := ast.Unparen(e).(*ast.CallExpr)
			if !ok || !isBuiltinCall(c.m.Info, call, "len") || len(call.Args) != 1 {
				return false
			}
			t := c.m.Info.TypeOf(call.Args[0])
			_, isSlice := t.Underlying().(*types.Slice)
			return isSlice
		}
		// position >= len(key)  |  len(key) <= position
		if (op == token.GEQ || op == token.GTR) && isLen(r) {
			return true
		}
		if (op == token.LEQ || op == token.LSS) && isLen(l) {
			return true
		}
	}
	return false
}

// loopExitEdge: an edge on which the descent cursor is known to be empty – the false edge of a
// loop condition `cursor.pointer != nil`, or the same test written after the loop. The cursor is a
// *nodeRef variable that points at a slot the descent reached through findChild (never the tree's
// root field, whose emptiness is the legitimate "empty tree" case).
func (c *Ctx) loopExitEdge(b *cfg.Block, succ int) bool {
	info := c.m.Info
	cond := condOf(info, b)
	if cond == nil {
		return false
	}
	for _, a := range impliedAtoms(cond, succ == 0) {
		be, ok := ast.Unparen(a.e).(*ast.BinaryExpr)
		if !ok || (be.Op != token.NEQ && be.Op != token.EQL) {
			continue
		}
		isNil := (be.Op == token.EQL) == a.val // the atom says "== nil"
		if !isNil {
			continue
		}
		x, y := be.X, be.Y
		if info.Types[x].IsNil() {
			x, y = y, x
		}
		if !info.Types[y].IsNil() {
			continue
		}
		sel, ok := ast.Unparen(x).(*ast.SelectorExpr)
		if !ok || sel.Sel.Name != "pointer" {
			continue
		}
		if b.Kind == cfg.KindForLoop {
			return true
		}
		// outside a loop header: only a pointer-typed cursor variable
		if v := identVar(info, sel.X); v != nil {
			if _, isPtr := v.Type().Underlying().(*types.Pointer); isPtr && c.isNodeRefType(v.Type()) {
				return true
			}
		}
	}
	return false
}

// R03 INSPATH, R04 DELPATH, R14 SIZEWRITERS.
func ruleR03R04(c *Ctx) {
	c.run("R05")
	pf := c.pf
	info := c.m.Info
	for _, tk := range c.m.Trees {
		props := []string{"C01", "C06", "C11"}
		if isCollationKind(tk) {
			props = append(props, "C08")
		}
		if isCompoundKind(tk) {
			props = append(props, "C09")
		}
		sizeField := c.sizeField(tk)
		// ---------------- Insert
		const (
			evOV = iota
			evRL
			evLK
			evRLK
			evSZ
			evVA
			evBAD
			evNS
		)
		names := []string{"OVERWRITE", "RELINK", "LINK", "ROOTLINK", "SIZE+", "VALUE", "UNRECOGNISED-TREE-WRITE", "NODE-STORE"}
		// insertPaths analyses one function as (part of) the insertion algorithm; calls to other
		// methods of the same tree type that contain tree writes are inlined by their exit summaries
		// oldContent: parameters of an inlined helper that hold, at the call, the old content of
		// the slot the caller has overwritten (reparent(ref, newNode, n, …) with n := *ref)
		var insertPaths func(u *FuncUnit, depth int, oldContent map[*types.Var]bool) *pathResult
		insertPaths = func(u *FuncUnit, depth int, oldContent map[*types.Var]bool) *pathResult {
			g := c.m.cfgOf(u)
			fl := c.e.flow(u)
			// classify statements once
			evMap := map[ast.Node][]int{}
			var ovStmts []*ast.AssignStmt
			synced := map[*ast.AssignStmt]map[*types.Var]bool{}
			isLeafRefVar := func(v *types.Var) bool {
				if v == nil {
					return false
				}
				def := singleDef(info, u.Body, v)
				if def == nil {
					return false
				}
				tag, _, ok := c.refLitTag(def)
				return ok && tag == c.m.LeafKind.Value
			}
			for _, b := range g.Blocks {
				if !b.Live || fl.in[b.Index] == nil {
					continue
				}
				for i, n := range b.Nodes {
					switch x := n.(type) {
					case *ast.AssignStmt:
						if len(x.Lhs) != 1 || len(x.Rhs) != 1 {
							continue
						}
						tag, ptr, isRef := c.refLitTag(x.Rhs[0])
						if _, isIdent := ast.Unparen(x.Lhs[0]).(*ast.Ident); isIdent {
							isRef = false // defining a local reference value is not a store into the tree
						}
						if isRef {
							fs := fl.setBefore(b, i)
							if tag == c.m.LeafKind.Value {
								// root link: the slot must be known empty
								slot := x.Lhs[0]
								ptrSel := &ast.SelectorExpr{X: slot, Sel: ast.NewIdent("pointer")}
								_ = ptr
								if fs.nilnessOfField(slot, "pointer") == -1 {
									evMap[n] = []int{evRLK}
								} else {
									_ = ptrSel
									evMap[n] = []int{evBAD}
								}
							} else {
								evMap[n] = []int{evOV}
								ovStmts = append(ovStmts, x)
								// which local copies hold the old content of the slot?
								set := map[*types.Var]bool{}
								want := fs.canon(x.Lhs[0])
								for _, f := range fs.m {
									if f.Kind == FAlias {
										if v := identVar(info, f.L); v != nil && fs.canon(f.L) == want {
											set[v] = true
										}
									}
								}
								synced[x] = set
								if os.Getenv("ARTCHECK_DEBUG") != "" {
									fmt.Fprintf(os.Stderr, "OV %s want=%s facts=%v\n", c.m.pos(x.Pos()), want, fs.describe())
								}
							}
							continue
						}
						if sel, ok := ast.Unparen(x.Lhs[0]).(*ast.SelectorExpr); ok && sel.Sel.Name == "value" {
							evMap[n] = []int{evVA}
						}
					case *ast.IncDecStmt:
						if isFieldOf(info, x.X, sizeField) {
							if x.Tok == token.INC {
								evMap[n] = []int{evSZ}
							} else {
								evMap[n] = []int{evBAD}
							}
						}
					case *ast.ExprStmt:
						call, ok := x.X.(*ast.CallExpr)
						if !ok {
							continue
						}
						sel, ok := call.Fun.(*ast.SelectorExpr)
						if !ok || sel.Sel.Name != "addChild" || len(call.Args) == 0 {
							continue
						}
						last := identVar(info, call.Args[len(call.Args)-1])
						switch {
						case isLeafRefVar(last):
							evMap[n] = []int{evLK}
						case last != nil && oldContent[last]:
							evMap[n] = []int{evRL}
						case last != nil:
							// relink: must hold the old slot content at every overwrite that reaches here
							okAll, any := true, false
							bb, _ := blockOf(g, n)
							for _, ov := range ovStmts {
								ob, _ := blockOf(g, ov)
								if ob != nil && bb != nil && reachable(ob)[bb] {
									any = true
									if !synced[ov][last] {
										okAll = false
									}
								}
							}
							if any && okAll {
								evMap[n] = []int{evRL}
							} else {
								evMap[n] = []int{evBAD}
							}
						default:
							evMap[n] = []int{evBAD}
						}
					}
				}
			}
			// every other store through a pointer (compressed-path adjustments of the split paths)
			for _, b := range g.Blocks {
				if !b.Live {
					continue
				}
				for _, n := range b.Nodes {
					if _, done := evMap[n]; done {
						continue
					}
					isStore := false
					switch x := n.(type) {
					case *ast.AssignStmt:
						if x.Tok != token.DEFINE {
							for _, l := range x.Lhs {
								if _, isId := ast.Unparen(l).(*ast.Ident); !isId {
									if v, through := rootVar(info, l); v == nil || through {
										isStore = true
									}
								}
							}
						}
					case *ast.IncDecStmt:
						if v, through := rootVar(info, x.X); v == nil || through {
							isStore = true
						}
					case *ast.ExprStmt:
						if call, ok := x.X.(*ast.CallExpr); ok {
							if (isBuiltinCall(info, call, "copy") || isBuiltinCall(info, call, "clear")) && len(call.Args) > 0 {
								isStore = true
							} else if !c.e.ef.callPure(call) {
								isStore = true // an unrecognised impure call
							}
						}
					}
					if isStore {
						evMap[n] = []int{evNS}
					}
				}
			}
			inline := func(n ast.Node) ([]summary, *ast.CallExpr) {
				if depth >= 2 {
					return nil, nil
				}
				var found *ast.CallExpr
				var cu *FuncUnit
				ast.Inspect(n, func(x ast.Node) bool {
					if _, isLit := x.(*ast.FuncLit); isLit {
						return false
					}
					if call, ok := x.(*ast.CallExpr); ok && found == nil {
						if f := c.m.staticCallee(call); f != nil {
							if tu := c.m.ByObj[f]; tu != nil && tu != u && tu.Lit == nil && (tu.Recv == tk.Name || (tu.Recv == "" && c.takesSlot(tu))) {
								found, cu = call, tu
							}
						}
					}
					return true
				})
				if found == nil {
					return nil, nil
				}
				// which arguments hold the old content of the overwritten slot here?
				old := map[*types.Var]bool{}
				if cu.Decl != nil && cu.Decl.Type.Params != nil {
					bb, bi := blockOf(g, n)
					// the content of which slot arguments is known to be held by which local here?
					var fsAt *FactSet
					if bb != nil && bi >= 0 && fl.in[bb.Index] != nil {
						fsAt = fl.setBefore(bb, bi)
					}
					slotContent := map[*types.Var]bool{} // locals that alias *X for a slot argument X of this call
					if fsAt != nil {
						for _, a := range found.Args {
							if pt, ok := info.TypeOf(a).(*types.Pointer); !ok || !c.isNodeRefType(pt.Elem()) {
								continue
							}
							want := fsAt.canon(&ast.StarExpr{X: a})
							for _, f := range fsAt.m {
								if f.Kind == FAlias {
									if v := identVar(info, f.L); v != nil && fsAt.canon(f.L) == want {
										slotContent[v] = true
									}
								}
							}
						}
					}
					k := 0
					for _, f := range cu.Decl.Type.Params.List {
						for _, nm := range f.Names {
							if k < len(found.Args) {
								if av := identVar(info, found.Args[k]); av != nil {
									okAll, any := true, false
									for _, ov := range ovStmts {
										ob, _ := blockOf(g, ov)
										if ob != nil && bb != nil && reachable(ob)[bb] {
											any = true
											if !synced[ov][av] {
												okAll = false
											}
										}
									}
									if (any && okAll) || oldContent[av] || slotContent[av] {
										if pv, ok := info.Defs[nm].(*types.Var); ok {
											old[pv] = true
										}
									}
								}
							}
							k++
						}
					}
				}
				sub := insertPaths(cu, depth+1, old)
				var sums []summary
				any := false
				for _, b := range sub.g.Blocks {
					if isPanicBlock(info, b) {
						continue
					}
					for _, st := range sub.exits[b] {
						if st.n != [maxEvents]uint8{} {
							any = true
						}
						sums = append(sums, summary{n: st.n, flags: st.flags, ret: constBoolReturn(info, b)})
					}
				}
				if !any {
					return nil, nil // a helper without tree writes (restoreKey, …)
				}
				return sums, found
			}
			return runPathsOpt(g, names,
				func(b *cfg.Block, i int, n ast.Node) []int { return evMap[n] },
				func(b *cfg.Block, succ int) uint8 {
					var f uint8
					if c.exhaustEdge(u, b, succ) {
						f |= flagEX
					}
					if c.loopExitEdge(b, succ) {
						f |= flagLX
					}
					return f
				}, &pathOpts{info: info, inline: inline})
		}
		if u := tk.Methods["Insert"]; u != nil {
			g := c.m.cfgOf(u)
			res := insertPaths(u, 0, nil)
			accepted := func(s pstate) bool {
				n := s.n
				if n[evNS] > 0 && n[evOV] == 0 {
					return false // node memory written on a path that does not split
				}
				n[evNS] = 0
				switch {
				case n[evBAD] > 0:
					return false
				case n == [maxEvents]uint8{evVA: 1}:
					return true
				case n == [maxEvents]uint8{evLK: 1, evSZ: 1}:
					return true
				case n == [maxEvents]uint8{evOV: 1, evRL: 1, evLK: 1, evSZ: 1}:
					return true
				case n == [maxEvents]uint8{evRLK: 1, evSZ: 1}:
					return true
				}
				return false
			}
			nExits := 0
			for _, b := range g.Blocks {
				states, ok := res.exits[b]
				if !ok || isPanicBlock(info, b) {
					continue
				}
				pos := c.m.pos(u.Decl.End())
				where := "end of function"
				if len(b.Nodes) > 0 {
					pos = c.m.pos(b.Nodes[len(b.Nodes)-1].Pos())
					where = "return"
				}
				seenDesc := map[string]bool{}
				for _, s := range states {
					nExits++
					proj := s
					proj.n[evNS] = 0 // node stores are judged by accepted(), they do not name the path
					desc := res.describe(proj)
					dk := fmt.Sprint(desc, s.flags, accepted(s))
					if seenDesc[dk] {
						continue
					}
					seenDesc[dk] = true
					if !accepted(s) && s.n[evNS] > 0 && s.n[evOV] == 0 {
						desc += "+node-store-without-split"
					}
					switch {
					case s.flags&flagLX != 0 && s.n == [maxEvents]uint8{}:
						c.r.ok("R03", fmt.Sprintf("%s.Insert loop-exit %s", tk.Name, desc), pos,
							"reached only by leaving the descent loop through its `slot.pointer != nil` guard; findChild returns occupied slots only (R09), so the edge is infeasible", props...)
					case s.flags&flagEX != 0 && !accepted(s):
						pfi := pf[tk.Name]
						key := fmt.Sprintf("%s.Insert key-exhausted %s %s", tk.Name, where, desc)
						props := props
						if pfi.class == "sort-key-not-injective" {
							// C08 is stated for collators that tell the stored strings apart
							var p2 []string
							for _, p := range props {
								if p != "C08" {
									p2 = append(p2, p)
								}
							}
							props = p2
						}
						if pfi.ok {
							c.r.ok("R03", key, pos, "path crosses a key-exhausted edge, infeasible because the keys of this kind are prefix-free ("+pfi.class+")", props...)
						} else {
							o := c.r.bad("R03", key, pos, "Insert path through a key-exhausted edge ends with "+desc+" and the keys of this kind are not prefix-free: "+pfi.reason, props...)
							o.Path = res.witness(b, res.entryOf[pkey{b.Index, s}])
						}
					case accepted(s):
						c.r.ok("R03", fmt.Sprintf("%s.Insert %s %s", tk.Name, where, desc), pos, "accepted event set for an Insert path", props...)
					default:
						// a size that no longer equals the number of stored keys also leaves a tree emptied
						// by deletions unlike a new one (the second half of C12)
						extra := []string{"C12"}
						if s.n[evVA] > 0 {
							// the path that finds the key present does more than store the value: the
							// no-op-update half of C15
							extra = append(extra, "C15")
						}
						o := c.r.bad("R03", fmt.Sprintf("%s.Insert %s %s", tk.Name, where, desc), pos,
							"Insert path ends with "+desc+": accepted are {VALUE}, {LINK,SIZE+}, {OVERWRITE,RELINK,LINK,SIZE+}, {ROOTLINK,SIZE+} – a leaf is linked without being counted, counted without being linked, or a subtree is dropped", append(append([]string(nil), props...), extra...)...)
						o.Path = res.witness(b, res.entryOf[pkey{b.Index, s}])
					}
				}
			}
			if nExits < 4 {
				c.r.undecided("R03", tk.Name+".Insert exits", c.m.pos(u.Decl.Pos()), fmt.Sprintf("only %d exit states found", nExits), props...)
			}
		}
		// ---------------- Delete
		if u := tk.Methods["Delete"]; u != nil {
			g := c.m.cfgOf(u)
			const (
				evUN = iota
				evSZ
				evRT
				evRF
				evBAD
			)
			names := []string{"UNLINK", "SIZE-", "return-true", "return-false", "UNRECOGNISED-TREE-WRITE"}
			var deletePaths func(u *FuncUnit, depth int) *pathResult
			ev := func(b *cfg.Block, i int, n ast.Node) []int {
				switch x := n.(type) {
				case *ast.AssignStmt:
					if len(x.Lhs) == 1 && len(x.Rhs) == 1 && c.isEmptyRefLit(x.Rhs[0]) {
						return []int{evUN}
					}
					for _, l := range x.Lhs {
						if v, through := rootVar(info, l); v == nil || through {
							return []int{evBAD}
						}
					}
				case *ast.IncDecStmt:
					if isFieldOf(info, x.X, sizeField) {
						if x.Tok == token.DEC {
							return []int{evSZ}
						}
						return []int{evBAD}
					}
					if v, through := rootVar(info, x.X); v == nil || through {
						return []int{evBAD}
					}
				case *ast.ExprStmt:
					if call, ok := x.X.(*ast.CallExpr); ok {
						if sel, ok := call.Fun.(*ast.SelectorExpr); ok && sel.Sel.Name == "deleteChild" {
							return []int{evUN}
						}
						if !c.e.ef.callPure(call) {
							return []int{evBAD}
						}
					}
				case *ast.ReturnStmt:
					if len(x.Results) == 1 && isConstBool(info, x.Results[0], true) {
						return []int{evRT}
					}
					return []int{evRF}
				}
				return nil
			}
			deletePaths = func(du *FuncUnit, depth int) *pathResult {
				inline := func(n ast.Node) ([]summary, *ast.CallExpr) {
					if depth >= 2 {
						return nil, nil
					}
					var found *ast.CallExpr
					var cu *FuncUnit
					ast.Inspect(n, func(x ast.Node) bool {
						if _, isLit := x.(*ast.FuncLit); isLit {
							return false
						}
						if call, ok := x.(*ast.CallExpr); ok && found == nil {
							if f := c.m.staticCallee(call); f != nil {
								if tu := c.m.ByObj[f]; tu != nil && tu != du && (tu.Recv == tk.Name || (tu.Recv == "" && c.takesSlot(tu))) && tu.Lit == nil {
									found, cu = call, tu
								}
							}
						}
						return true
					})
					if found == nil {
						return nil, nil
					}
					sub := deletePaths(cu, depth+1)
					var sums []summary
					any := false
					for _, b := range sub.g.Blocks {
						if isPanicBlock(info, b) {
							continue
						}
						// `return self(child, …)`: by induction the outcome of that path is one of the
						// other outcomes, provided nothing happened at this level before the call
						if tailSelfCall(c.m, cu, b) {
							for _, st := range sub.exits[b] {
								if st.n[evUN] > 0 || st.n[evSZ] > 0 || st.n[evBAD] > 0 {
									bad := summary{flags: st.flags}
									bad.n[evBAD] = 1
									sums = append(sums, bad)
									any = true
								}
							}
							continue
						}
						for _, st := range sub.exits[b] {
							sm := summary{n: st.n, flags: st.flags, ret: constBoolReturn(info, b)}
							if sm.n[evUN] > 0 || sm.n[evSZ] > 0 || sm.n[evBAD] > 0 {
								any = true
							}
							sm.n[evRT], sm.n[evRF] = 0, 0
							// `return helper(…)` hands the helper's result on
							if rs, ok := n.(*ast.ReturnStmt); ok && len(rs.Results) == 1 && ast.Unparen(rs.Results[0]) == ast.Expr(found) {
								if sm.ret == 1 {
									sm.n[evRT] = 1
								} else {
									sm.n[evRF] = 1
								}
							}
							sums = append(sums, sm)
						}
					}
					if !any {
						return nil, nil
					}
					return sums, found
				}
				return runPathsOpt(c.m.cfgOf(du), names, ev, func(b *cfg.Block, succ int) uint8 {
					if c.loopExitEdge(b, succ) {
						return flagLX
					}
					return 0
				}, &pathOpts{info: info, inline: inline, boolReturn: func(val bool) []int {
					if val {
						return []int{evRT}
					}
					return []int{evRF}
				}})
			}
			res := deletePaths(u, 0)
			nExits := 0
			for _, b := range g.Blocks {
				states, ok := res.exits[b]
				if !ok || isPanicBlock(info, b) {
					continue
				}
				pos := c.m.pos(u.Decl.End())
				if len(b.Nodes) > 0 {
					pos = c.m.pos(b.Nodes[len(b.Nodes)-1].Pos())
				}
				for _, s := range states {
					nExits++
					desc := res.describe(s)
					n := s.n
					okState := n == [maxEvents]uint8{evUN: 1, evSZ: 1, evRT: 1} || n == [maxEvents]uint8{evRF: 1}
					key := fmt.Sprintf("%s.Delete exit %s", tk.Name, desc)
					if okState {
						c.r.ok("R04", key, pos, "accepted: one unlink, one decrement, true – or nothing and false", append(props, "C15", "C17")...)
					} else {
						o := c.r.bad("R04", key, pos, "Delete path ends with "+desc+": accepted are {UNLINK,SIZE-,return-true} and {return-false}", append(append([]string(nil), props...), "C15", "C17", "C12")...)
						o.Path = res.witness(b, res.entryOf[pkey{b.Index, s}])
					}
				}
			}
			if nExits < 3 {
				c.r.undecided("R04", tk.Name+".Delete exits", c.m.pos(u.Decl.Pos()), fmt.Sprintf("only %d exit states found", nExits), props...)
			}
		}
	}
	c.r.floor("R03", 16, "Insert exit states", "C06")
	c.r.floor("R04", 8, "Delete exit states", "C06")
}

// nilnessOfField: nilness of slot.<field> for an lvalue slot expression.
func (fs *FactSet) nilnessOfField(slot ast.Expr, field string) int {
	want := fs.canon(slot)
	want = strings.TrimPrefix(want, "*")
	if strings.HasPrefix(want, "&") {
		want = want[1:]
	}
	want += "." + field
	res := 0
	fs.eqFacts(func(l, r string, val bool, f *Fact) {
		if (l == want && r == "nil") || (r == want && l == "nil") {
			if val {
				res = -1
			} else {
				res = 1
			}
		}
	})
	return res
}

// R14 SIZEWRITERS – only Insert/Delete of the own kind write the counter, by ±1; Size returns it.
func ruleR14(c *Ctx) {
	info := c.m.Info
	sizeOf := map[string]string{} // struct name → field
	for _, tk := range c.m.Trees {
		f := c.sizeField(tk)
		u := tk.Methods["Size"]
		if f == "" || u == nil {
			c.r.undecided("R14", tk.Name+".Size returns counter", "-", "Size() is not `return t.<field>`", "C06")
			continue
		}
		sizeOf[tk.Name] = f
		// Size body: a single return of the bare field
		if len(u.Body.List) == 1 {
			c.r.ok("R14", tk.Name+".Size returns counter", c.m.pos(u.Decl.Pos()), "Size() returns field "+f+" unmodified", "C06")
		} else {
			c.r.bad("R14", tk.Name+".Size returns counter", c.m.pos(u.Decl.Pos()), "Size() does more than return the counter", "C06")
		}
	}
	for _, u := range c.sortedUnits() {
		ast.Inspect(u.Body, func(n ast.Node) bool {
			if fl, ok := n.(*ast.FuncLit); ok && ast.Node(fl) != ast.Node(u.Lit) {
				return false
			}
			var lhs []ast.Expr
			var tok token.Token
			switch x := n.(type) {
			case *ast.AssignStmt:
				lhs, tok = x.Lhs, x.Tok
			case *ast.IncDecStmt:
				lhs, tok = []ast.Expr{x.X}, x.Tok
			case *ast.UnaryExpr:
				if x.Op == token.AND {
					lhs, tok = []ast.Expr{x.X}, token.AND
				}
			case *ast.CompositeLit:
				// constructors must leave the counter zero
				if nt := namedOf(info.TypeOf(x)); nt != nil {
					if f, ok := sizeOf[nt.Obj().Name()]; ok {
						for _, el := range x.Elts {
							if kv, ok := el.(*ast.KeyValueExpr); ok {
								if id, ok := kv.Key.(*ast.Ident); ok && id.Name == f {
									c.r.bad("R14", u.Name+" literal sets "+f, c.m.pos(kv.Pos()), "a tree literal initialises the counter", "C06", "C12")
								}
							}
						}
					}
				}
			}
			for _, l := range lhs {
				sel, ok := ast.Unparen(l).(*ast.SelectorExpr)
				if !ok || info.Selections[sel] == nil {
					continue
				}
				rt := namedOf(info.TypeOf(sel.X))
				if rt == nil {
					continue
				}
				f, isTree := sizeOf[rt.Obj().Name()]
				if !isTree || sel.Sel.Name != f {
					continue
				}
				base := u.Name
				if i := strings.IndexByte(base, '$'); i >= 0 {
					base = base[:i]
				}
				key := fmt.Sprintf("%s writes %s.%s", u.Name, rt.Obj().Name(), f)
				owner := base == rt.Obj().Name()+".Insert" || base == rt.Obj().Name()+".Delete"
				// helpers that Insert/Delete delegate to are part of them
				if !owner {
					for _, root := range []string{rt.Obj().Name() + ".Insert", rt.Obj().Name() + ".Delete"} {
						if ru := c.m.ByName[root]; ru != nil && c.reachableFrom([]*FuncUnit{ru})[u] {
							owner = true
						}
					}
				}
				inQuery := c.reachOf("C15")[u]
				switch {
				case !owner && inQuery:
					c.r.bad("R14", key, c.m.pos(l.Pos()), "the size counter is written by a function reachable from the query entry points", "C06", "C15")
				case !owner:
					c.r.ok("R14", key, c.m.pos(l.Pos()), "written by a mutator that is neither Insert nor Delete nor reachable from a query (outside the histories the property quantifies over)", "C06")
				case tok != token.INC && tok != token.DEC:
					c.r.bad("R14", key, c.m.pos(l.Pos()), "the size counter is changed by something other than ++/--", "C06")
				case tok == token.INC && !strings.HasSuffix(base, ".Insert") && !c.onlyReachedFrom(u, rt.Obj().Name()+".Insert", rt.Obj().Name()+".Delete"),
					tok == token.DEC && !strings.HasSuffix(base, ".Delete") && !c.onlyReachedFrom(u, rt.Obj().Name()+".Delete", rt.Obj().Name()+".Insert"):
					c.r.bad("R14", key, c.m.pos(l.Pos()), "increment outside Insert or decrement outside Delete", "C06")
				default:
					c.r.ok("R14", key, c.m.pos(l.Pos()), "counter changed by one inside its owner", "C06")
				}
			}
			return true
		})
	}
	c.r.floor("R14", 20, "counter writers", "C06")
}

// onlyReachedFrom: u is a helper of the method called want – reachable from it and not from the
// method called other (a helper Delete hands its work to may decrement the counter; one that
// Insert also reaches may not).
func (c *Ctx) onlyReachedFrom(u *FuncUnit, want, other string) bool {
	wu, ou := c.m.ByName[want], c.m.ByName[other]
	if wu == nil || !c.reachableFrom([]*FuncUnit{wu})[u] {
		return false
	}
	return ou == nil || !c.reachableFrom([]*FuncUnit{ou})[u]
}

// takesSlot: a package-level function with a *nodeRef parameter – a part of the insertion
// algorithm moved out of the method (splitLeaf(ref, …)).
func (c *Ctx) takesSlot(u *FuncUnit) bool {
	if u == nil || u.Obj == nil {
		return false
	}
	sig, _ := u.Obj.Type().(*types.Signature)
	if sig == nil {
		return false
	}
	for i := 0; i < sig.Params().Len(); i++ {
		if _, isPtr := sig.Params().At(i).Type().(*types.Pointer); isPtr && c.isNodeRefType(sig.Params().At(i).Type()) {
			return true
		}
	}
	return false
}

// tailSelfCall: the block ends in `return f(…)` with f the unit itself.
func tailSelfCall(m *Model, u *FuncUnit, b *cfg.Block) bool {
	if len(b.Nodes) == 0 || u.Obj == nil {
		return false
	}
	rs, ok := b.Nodes[len(b.Nodes)-1].(*ast.ReturnStmt)
	if !ok || len(rs.Results) != 1 {
		return false
	}
	call, ok := ast.Unparen(rs.Results[0]).(*ast.CallExpr)
	return ok && m.staticCallee(call) == u.Obj
}

// refLitTagAny: e is a nodeRef composite literal; its tag expression (constant or not) and its
// pointer operand.
func (c *Ctx) refLitTagAny(e ast.Expr) (tag ast.Expr, ptr ast.Expr, ok bool) {
	cl, isLit := ast.Unparen(e).(*ast.CompositeLit)
	if !isLit {
		return
	}
	n := namedOf(c.m.Info.TypeOf(cl))
	if n == nil || c.m.NodeRef == nil || n.Obj() != c.m.NodeRef.Obj() {
		return
	}
	st := n.Underlying().(*types.Struct)
	for i, el := range cl.Elts {
		name := ""
		val := el
		if kv, isKV := el.(*ast.KeyValueExpr); isKV {
			name = kv.Key.(*ast.Ident).Name
			val = kv.Value
		} else if i < st.NumFields() {
			name = st.Field(i).Name()
		}
		switch name {
		case "tag":
			tag = val
		case "pointer":
			ptr = val
		}
	}
	return tag, ptr, true
}
