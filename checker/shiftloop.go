package main

// Shift loops: the explicit form of the memmove that opens or closes a gap in the sorted arrays of
// the 4- and 16-slot classes.
//
//	for i := A; i < len(X)-1; i++ { X[i] = X[i+1] }      ≡  copy(X[A:], X[A+1:])   (closes the gap at A)
//	for i := len(X)-1; i > A; i-- { X[i] = X[i-1] }      ≡  copy(X[A+1:], X[A:])   (opens a gap at A)
//
// with any number of arrays moved in one body and the bound written as len(X)-1, a constant, or a
// comparison the other way round. A loop of this form is treated by R41 and R53 like the copy.

import (
	"go/ast"
	"go/token"
	"go/types"
)

type shiftLoop struct {
	loop   *ast.ForStmt
	arrays []string // text of the arrays moved (n4.children, n16.keys)
	dir    int      // -1 closes a gap (every element takes the next one), +1 opens one
	from   ast.Expr // A
	stores []*ast.AssignStmt
}

func (c *Ctx) shiftLoopOf(f *ast.ForStmt) *shiftLoop {
	info := c.m.Info
	init, ok := f.Init.(*ast.AssignStmt)
	if !ok || init.Tok != token.DEFINE || len(init.Lhs) != 1 || len(init.Rhs) != 1 || f.Cond == nil || f.Post == nil {
		return nil
	}
	iv, ok := init.Lhs[0].(*ast.Ident)
	if !ok {
		return nil
	}
	step := 0
	switch p := f.Post.(type) {
	case *ast.IncDecStmt:
		if id, ok := p.X.(*ast.Ident); ok && id.Name == iv.Name {
			step = 1
			if p.Tok == token.DEC {
				step = -1
			}
		}
	}
	if step == 0 {
		return nil
	}
	cond, ok := f.Cond.(*ast.BinaryExpr)
	if !ok {
		return nil
	}
	// normalise to  i OP bound
	op, bound := cond.Op, cond.Y
	if id, ok := ast.Unparen(cond.X).(*ast.Ident); !ok || id.Name != iv.Name {
		if id2, ok2 := ast.Unparen(cond.Y).(*ast.Ident); !ok2 || id2.Name != iv.Name {
			return nil
		}
		bound = cond.X
		op = map[token.Token]token.Token{token.LSS: token.GTR, token.GTR: token.LSS, token.LEQ: token.GEQ, token.GEQ: token.LEQ}[cond.Op]
	}
	sl := &shiftLoop{loop: f}
	var arrLen int64 = -1
	delta := 0
	for _, st := range f.Body.List {
		as, ok := st.(*ast.AssignStmt)
		if !ok || as.Tok != token.ASSIGN || len(as.Lhs) != 1 || len(as.Rhs) != 1 {
			return nil
		}
		l, ok1 := ast.Unparen(as.Lhs[0]).(*ast.IndexExpr)
		r, ok2 := ast.Unparen(as.Rhs[0]).(*ast.IndexExpr)
		if !ok1 || !ok2 || exprText(l.X) != exprText(r.X) {
			return nil
		}
		li, ok := ast.Unparen(l.Index).(*ast.Ident)
		if !ok || li.Name != iv.Name {
			return nil
		}
		rb, ok := ast.Unparen(r.Index).(*ast.BinaryExpr)
		if !ok {
			return nil
		}
		ri, ok := ast.Unparen(rb.X).(*ast.Ident)
		tv, has := info.Types[rb.Y]
		if !ok || ri.Name != iv.Name || !has || tv.Value == nil || tv.Value.ExactString() != "1" {
			return nil
		}
		d := 0
		switch rb.Op {
		case token.ADD:
			d = 1
		case token.SUB:
			d = -1
		default:
			return nil
		}
		if delta != 0 && d != delta {
			return nil
		}
		delta = d
		t := info.TypeOf(l.X)
		if t == nil {
			return nil
		}
		n := arrayLen(t)
		if n < 0 || (arrLen >= 0 && n != arrLen) {
			return nil
		}
		arrLen = n
		sl.arrays = append(sl.arrays, exprText(l.X))
		sl.stores = append(sl.stores, as)
	}
	if delta == 0 || arrLen < 0 {
		return nil
	}
	// the constant value of an expression of the form len(X)-1 / N-1 / N
	constOf := func(e ast.Expr) (int64, bool) {
		if tv, ok := info.Types[e]; ok && tv.Value != nil {
			return constantInt64(tv)
		}
		return 0, false
	}
	switch {
	case delta == 1 && step == 1:
		// X[i] = X[i+1] for i = A … last-1: closes the gap at A; the bound must be the last index
		b, ok := constOf(bound)
		if !ok || !((op == token.LSS && b == arrLen-1) || (op == token.LEQ && b == arrLen-2) || (op == token.NEQ && b == arrLen-1)) {
			return nil
		}
		sl.dir, sl.from = -1, init.Rhs[0]
	case delta == -1 && step == -1:
		// X[i] = X[i-1] for i = last … A+1: opens a gap at A
		a, ok := constOf(init.Rhs[0])
		if !ok || a != arrLen-1 {
			return nil
		}
		switch op {
		case token.GTR:
			sl.dir, sl.from = 1, bound
		default:
			return nil
		}
	default:
		return nil // the other two combinations smear one element over the array
	}
	return sl
}

// arrayLen: the length of an array (or pointer to array) type, -1 otherwise.
func arrayLen(t types.Type) int64 {
	if p, ok := t.Underlying().(*types.Pointer); ok {
		t = p.Elem()
	}
	if a, ok := t.Underlying().(*types.Array); ok {
		return a.Len()
	}
	return -1
}

// shiftLoopsIn lists the shift loops in a statement tree.
func (c *Ctx) shiftLoopsIn(n ast.Node) []*shiftLoop {
	var out []*shiftLoop
	ast.Inspect(n, func(x ast.Node) bool {
		if _, isLit := x.(*ast.FuncLit); isLit {
			return false
		}
		if f, ok := x.(*ast.ForStmt); ok {
			if sl := c.shiftLoopOf(f); sl != nil {
				out = append(out, sl)
			}
		}
		return true
	})
	return out
}
