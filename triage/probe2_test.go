package triage

import (
	"fmt"
	"math"
	"testing"

	art "github.com/Clement-Jean/go-art"
)

type ck struct{}

func (ck) Transform(k uint16) ([]byte, []byte) {
	return nil, []byte{byte(k >> 8), byte(k)}
}
func (ck) Restore(b []byte) uint16 { return uint16(b[0])<<8 | uint16(b[1]) }

func TestProbe2(t *testing.T) {
	try("C04 prefix node48 root fully covering", func() {
		tr := art.NewAlphaSortedTree[string, int]()
		for i := 0; i < 40; i++ {
			tr.Insert("pp"+string(rune('A'+i))+"xx", i)
			tr.Insert("pp"+string(rune('A'+i))+"yy", i)
		}
		n := 0
		for range tr.Prefix("p") {
			n++
		}
		fmt.Println("prefix count (want 80)", n)
	})
	try("C04 prefix sibling continuation", func() {
		tr := art.NewAlphaSortedTree[string, int]()
		for i, k := range []string{"0123456789aXY1", "0123456789aXY2", "0123456789bXZ1", "0123456789bXZ2"} {
			tr.Insert(k, i)
		}
		var got []string
		for k := range tr.Prefix("0123456789bXZ") {
			got = append(got, k)
		}
		fmt.Println("prefix got (want 2):", got)
	})
	try("C04 prefix short with n16", func() {
		tr := art.NewAlphaSortedTree[string, int]()
		for i := 0; i < 10; i++ {
			tr.Insert("ab"+string(rune('A'+i))+"xx", i)
			tr.Insert("ab"+string(rune('A'+i))+"yy", i)
		}
		n := 0
		for range tr.Prefix("a") {
			n++
		}
		m := 0
		for range tr.Prefix("abC") {
			m++
		}
		fmt.Println("prefix a (want 20)", n, "abC (want 2)", m)
	})
	try("C05 empty", func() {
		tr := art.NewUnsignedBinaryTree[uint8, int]()
		_, _, ok := tr.Minimum()
		_, _, ok2 := tr.Maximum()
		n := 0
		for range tr.TopK(3) {
			n++
		}
		for range tr.BottomK(0) {
			n++
		}
		tr.Insert(1, 1)
		tr.Insert(2, 1)
		for range tr.TopK(5) {
			n++
		}
		fmt.Println("min/max on empty:", ok, ok2, "n", n)
	})
	try("C09 codec with distinct first result", func() {
		tr := art.NewCompoundTree[uint16, int](ck{})
		for i := uint16(0); i < 10; i++ {
			tr.Insert(i*100, int(i))
		}
		var got []uint16
		for k := range tr.Range(200, 500) {
			got = append(got, k)
		}
		fmt.Println("compound range got", got)
	})
	try("C02 float order", func() {
		tr := art.NewFloatBinaryTree[float64, int]()
		for i, f := range []float64{math.Inf(1), math.NaN(), -0.0, 0, math.Copysign(0, -1), 1, -1, math.Inf(-1), 5e-324, -5e-324} {
			tr.Insert(f, i)
		}
		var got []float64
		for k := range tr.All() {
			got = append(got, k)
		}
		fmt.Println("float order", got, tr.Size())
	})
	try("C08 collation equal colkeys", func() {
		tr := art.NewCollationSortedTree[string, int]()
		tr.Insert("é", 1) // decomposed
		tr.Insert("é", 2)  // composed
		n := 0
		for k := range tr.All() {
			n++
			_ = k
		}
		fmt.Println("collation canonical-equivalents: count", n, "size", tr.Size())
	})
	try("C08 collation case/accents", func() {
		tr := art.NewCollationSortedTree[string, int]()
		for i, k := range []string{"abc", "Abc", "ábc", "abd", "ab"} {
			tr.Insert(k, i)
		}
		var got []string
		for k := range tr.All() {
			got = append(got, k)
		}
		v, ok := tr.Search("Abc")
		fmt.Println("collation:", got, v, ok, tr.Size())
		_, ok = tr.Search("abcdefghijklmnop")
		fmt.Println("search absent longer", ok)
		_, ok = tr.Search("a")
		fmt.Println("search absent shorter", ok)
	})
	try("C08 collation search absent short in long prefix", func() {
		tr := art.NewCollationSortedTree[string, int]()
		tr.Insert("aaaaaaaaaaaaaaaaaaaaX", 1)
		tr.Insert("aaaaaaaaaaaaaaaaaaaaY", 2)
		_, ok := tr.Search("aaaaaaaaaaaa")
		fmt.Println("ok", ok)
	})
	try("C03 collation range on empty", func() {
		tr := art.NewCollationSortedTree[string, int]()
		for range tr.Range("a", "b") {
		}
	})
	try("C12 emptied tree reuse", func() {
		tr := art.NewAlphaSortedTree[string, int]()
		keys := []string{}
		for i := 0; i < 60; i++ {
			keys = append(keys, "k"+string(rune(33+i))+"z")
		}
		for round := 0; round < 3; round++ {
			for i, k := range keys {
				tr.Insert(k, i)
			}
			for _, k := range keys {
				if !tr.Delete(k) {
					fmt.Println("delete failed", k)
				}
			}
			_, _, ok := tr.Minimum()
			fmt.Println("round", round, "size", tr.Size(), "min ok", ok)
		}
	})
}
