package triage

import (
	"fmt"
	"strings"
	"testing"

	art "github.com/Clement-Jean/go-art"
)

func TestProbe3(t *testing.T) {
	for _, p := range []string{"a", "apple", "applesauce", "b", "zzzzzzzzzzzzzzzzzzzzzzz"} {
		try("C04 prefix on single-leaf tree p="+p, func() {
			tr := art.NewAlphaSortedTree[string, int]()
			tr.Insert("apple", 1)
			var got []string
			for k := range tr.Prefix(p) {
				got = append(got, k)
			}
			fmt.Println("single-leaf prefix", p, got)
		})
	}
	try("C08 collation short absent", func() {
		tr := art.NewCollationSortedTree[string, int]()
		tr.Insert(strings.Repeat("a", 40)+"X", 1)
		tr.Insert(strings.Repeat("a", 40)+"Y", 2)
		for n := 1; n < 40; n++ {
			func() {
				defer func() {
					if r := recover(); r != nil {
						fmt.Println("collation search panic at n=", n, r)
					}
				}()
				tr.Search(strings.Repeat("a", n))
			}()
		}
	})
	try("C02 bytes>=0x80 order & node16", func() {
		tr := art.NewAlphaSortedTree[[]byte, int]()
		for i := 0; i < 16; i++ {
			tr.Insert([]byte{'k', byte(i*17 + 3), 'z'}, i)
		}
		prev := -1
		okk := true
		for k := range tr.All() {
			if int(k[1]) <= prev {
				okk = false
			}
			prev = int(k[1])
		}
		fmt.Println("order ok", okk)
	})
}
