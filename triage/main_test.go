package triage

import (
	"fmt"
	"runtime"
	"testing"

	art "github.com/Clement-Jean/go-art"
)

func try(name string, f func()) {
	defer func() {
		if r := recover(); r != nil {
			fmt.Printf("%-40s PANIC: %v\n", name, r)
		}
	}()
	f()
}

func TestProbe(t *testing.T) {
	try("C01 search short absent key in long prefix", func() {
		tr := art.NewAlphaSortedTree[string, int]()
		tr.Insert("aaaaaaaaaaaaaaaaaaaaX", 1)
		tr.Insert("aaaaaaaaaaaaaaaaaaaaY", 2)
		_, ok := tr.Search("aaaaaaaaaaaa")
		fmt.Println("search short:", ok)
	})
	try("C01 delete short absent key in long prefix", func() {
		tr := art.NewAlphaSortedTree[string, int]()
		tr.Insert("aaaaaaaaaaaaaaaaaaaaX", 1)
		tr.Insert("aaaaaaaaaaaaaaaaaaaaY", 2)
		ok := tr.Delete("aaaaaaaaaaaa")
		fmt.Println("delete short:", ok)
	})
	try("C01 embedded NUL", func() {
		tr := art.NewAlphaSortedTree[string, int]()
		tr.Insert("a", 1)
		tr.Insert("a\x00", 2)
		v, ok := tr.Search("a")
		fmt.Println("search a:", v, ok, "size", tr.Size())
		n := 0
		for range tr.All() {
			n++
		}
		fmt.Println("all count", n)
	})
	try("C03 range on empty alpha", func() {
		tr := art.NewAlphaSortedTree[string, int]()
		for k := range tr.Range("a", "b") {
			fmt.Println(k)
		}
		fmt.Println("range empty ok")
	})
	try("C03 range on empty alpha, empty end", func() {
		tr := art.NewAlphaSortedTree[string, int]()
		for k := range tr.Range("a", "") {
			fmt.Println(k)
		}
		fmt.Println("range empty ok")
	})
	try("C03 range on empty uint", func() {
		tr := art.NewUnsignedBinaryTree[uint32, int]()
		for k := range tr.Range(1, 5) {
			fmt.Println(k)
		}
		fmt.Println("range empty ok")
	})
	try("C03 range depth per scan", func() {
		tr := art.NewAlphaSortedTree[string, int]()
		for i, k := range []string{"ab1x", "ab1y", "ac123456", "ac123457"} {
			tr.Insert(k, i)
		}
		var got []string
		for k := range tr.Range("ac123456", "ac123457") {
			got = append(got, k)
		}
		fmt.Println("range got", got)
	})
	try("C04 prefix with node48 on path", func() {
		tr := art.NewAlphaSortedTree[string, int]()
		for i := 0; i < 40; i++ {
			tr.Insert("p"+string(rune('A'+i))+"xx", i)
			tr.Insert("p"+string(rune('A'+i))+"yy", i)
		}
		n := 0
		for range tr.Prefix("pBx") {
			n++
		}
		fmt.Println("prefix count", n)
	})
	try("C06 size after compressed-path split", func() {
		tr := art.NewAlphaSortedTree[string, int]()
		tr.Insert("abcx", 1)
		tr.Insert("abcy", 2)
		tr.Insert("abd", 3)
		n := 0
		for range tr.All() {
			n++
		}
		fmt.Println("size", tr.Size(), "count", n)
	})
	try("C14 topk re-iteration", func() {
		tr := art.NewAlphaSortedTree[string, int]()
		for i, k := range []string{"a", "b", "c", "d"} {
			tr.Insert(k, i)
		}
		s := tr.TopK(3)
		a, b := 0, 0
		for range s {
			a++
		}
		for range s {
			b++
		}
		fmt.Println("topk pass1", a, "pass2", b)
	})
	try("C17 collation search leak", func() {
		tr := art.NewCollationSortedTree[string, int]()
		tr.Insert("hello", 1)
		var m0, m1 runtime.MemStats
		runtime.GC(); runtime.GC()
		runtime.ReadMemStats(&m0)
		for i := 0; i < 1000000; i++ {
			tr.Search("hello")
		}
		runtime.GC(); runtime.GC()
		runtime.ReadMemStats(&m1)
		fmt.Println("heap delta", int64(m1.HeapAlloc)-int64(m0.HeapAlloc))
		runtime.KeepAlive(tr)
	})
	try("C13 append writes into caller spare capacity", func() {
		tr := art.NewAlphaSortedTree[[]byte, int]()
		buf := []byte("helloWORLD")
		tr.Insert(buf[:5], 1)
		fmt.Printf("buf after insert: %q\n", buf)
		buf2 := []byte("abcdeZZZZZ")
		tr.Search(buf2[:5])
		fmt.Printf("buf2 after search: %q\n", buf2)
		// retention
		k := make([]byte, 3, 3)
		copy(k, "key")
		tr.Insert(k, 2)
		k[0] = 'X'
		_, ok := tr.Search([]byte("key"))
		fmt.Println("key still found after caller mutation (cap==len):", ok)
		k2 := make([]byte, 3, 8)
		copy(k2, "foo")
		tr.Insert(k2, 3)
		k2[0] = 'X'
		_, ok = tr.Search([]byte("foo"))
		fmt.Println("foo still found after caller mutation (cap>len):", ok)
	})
}
