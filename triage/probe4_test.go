package triage

import (
	"fmt"
	"testing"

	art "github.com/Clement-Jean/go-art"
)

func TestProbe4(t *testing.T) {
	tr := art.NewAlphaSortedTree[[]byte, int]()
	tr.Insert([]byte("apple"), 1)
	for b := 0; b < 256; b++ {
		func() {
			defer func() {
				if r := recover(); r != nil {
					fmt.Println("PANIC for p=", b, r)
				}
			}()
			for range tr.Prefix([]byte{byte(b)}) {
			}
		}()
	}
}
