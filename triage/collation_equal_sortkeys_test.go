package art

import (
	"runtime/debug"
	"testing"
)

// Reproducer for the nil-pointer panics of the collation tree seen in the
// randomised trace. No Delete, no iteration, no GC timing: three Inserts.
//
// "abcd\u00e9" (precomposed e-acute) and "abcde\u0301" (e + combining acute) are
// different strings that are canonically equivalent, so the collator gives
// both the SAME sort key. Insert tells keys apart by their raw bytes but
// places them by their sort key.
func TestCollationEqualSortKeysPanic(t *testing.T) {
	const nfc, nfd = "abcd\u00e9", "abcde\u0301"

	tr := NewCollationSortedTree[string, int]().(*collationSortedTree[string, int])
	tr.Insert(nfc, 1)
	tr.Insert(nfd, 2) // same sort key, different raw key

	// State after the two inserts: both entries are gone, the root is a
	// node4 without children, and Size still says 2.
	t.Logf("size=%d root=%v children=%d prefixLen=%d",
		tr.Size(), tr.root.tag, tr.root.node().childrenLen, tr.root.node().prefixLen)
	if _, ok := tr.Search(nfc); !ok {
		t.Errorf("Search(%q): entry lost", nfc)
	}
	if _, ok := tr.Search(nfd); !ok {
		t.Errorf("Search(%q): entry lost", nfd)
	}

	for _, tc := range []struct{ name, key string }{
		// sort key differs from the root's compressed path within the bytes
		// stored in the node: panics in Insert, collation.go:212-213
		{"split", "x"},
		// sort key agrees with the first maxPrefixLen bytes of the compressed
		// path (5 primary weights): panics in prefixMismatch, tree.go:71-72
		{"mismatch", "abcdex"},
	} {
		t.Run(tc.name, func(t *testing.T) {
			tr := NewCollationSortedTree[string, int]()
			tr.Insert(nfc, 1)
			tr.Insert(nfd, 2)

			defer func() {
				if r := recover(); r != nil {
					t.Errorf("Insert(%q) panicked: %v\n%s", tc.key, r, debug.Stack())
				}
			}()
			tr.Insert(tc.key, 3) // <- the call that panics
		})
	}
}
